"""C11: optional / complex vectors keep their parallel storages in lockstep and index them alike."""
import os, re
from xv.unit import Unit
from xv.driver import Job, VERIF
from xv.prop import native_run
from props import C03, C03_contracts

PROP = 'C11'
INST = '''#include <xtl/xoptional_sequence.hpp>
using BS = xtl::xdynamic_bitset<unsigned char>;
using OV = xtl::xoptional_vector<int, std::allocator<int>, BS>;
using OS = xtl::xoptional_sequence<std::vector<int>, BS>;
template class xtl::xoptional_vector<int, std::allocator<int>, BS>;
template class xtl::xoptional_sequence<std::vector<int>, BS>;
template OV::xoptional_vector(std::size_t, const xtl::xoptional<int, bool>&);
template void OV::resize(std::size_t, const xtl::xoptional<int, bool>&);
bool eq(const OS& a, const OS& b) { return a == b; }
bool ne(const OS& a, const OS& b) { return a != b; }
'''
INST_C = '''#include <xtl/xcomplex_sequence.hpp>
using CV = xtl::xcomplex_vector<int, false>;
using CS = xtl::xcomplex_sequence<std::vector<int>, false>;
template class xtl::xcomplex_vector<int, false>;
template class xtl::xcomplex_sequence<std::vector<int>, false>;
template void CV::resize(std::size_t, const xtl::xcomplex<int&, int&, false>&);
template CV::xcomplex_vector(std::size_t, const xtl::xcomplex<int&, int&, false>&);
bool eq(const CS& a, const CS& b) { return a == b; }
bool ne(const CS& a, const CS& b) { return a != b; }
'''
NAMES_C = ('xcomplex_vector', 'resize', 'at', 'operator[]', 'front', 'back', 'size', 'empty', 'xcomplex_sequence')


def alias_c(fn, q):
    # the comparison operators keep one name whatever their template parameter list looks like
    if q in ('xtl::operator==', 'xtl::operator!=') and 'xcomplex_sequence' in fn['type']['qualType']:
        return 'cs_op_eq' if q.endswith('==') else 'cs_op_ne'
    return None


def select_c(fn, q, lw):
    if q in ('xtl::operator==', 'xtl::operator!=') and 'xcomplex_sequence' in fn['type']['qualType']:
        return True
    return (q.startswith('xtl::xcomplex_vector::') or q.startswith('xtl::xcomplex_sequence::')) and fn.get('name') in NAMES_C and 'initializer_list' not in fn['type']['qualType']


INST_A = '''#include <xtl/xoptional_sequence.hpp>
using BS = xtl::xdynamic_bitset<unsigned char>;
using OA = xtl::xoptional_array<int, 3, BS>;
using OS = xtl::xoptional_sequence<std::array<int, 3>, BS>;
namespace xv_unit {
OA make_default() { return OA(); }                    // the defaulted constructor through the code clang generates for it
OA make_sv(const int& v) { return OA(3, v); }
OA make_so(const xtl::xoptional<int, bool>& v) { return OA(3, v); }
int use(OS& s, const OS& c, std::size_t i) { return s.at(i).value() + s[i].value() + s.front().value() + s.back().value() + c.at(i).value() + c[i].value() + c.front().value() + c.back().value() + (int)c.size() + (int)c.empty()
    + (*s.begin()).value() + (*c.cbegin()).value() + (*s.rbegin()).value() + (int)(s.end() - s.begin()); }   // the array variant's forward/const/reverse iterators exist (fix ac98bdd)
}
bool eq(const OS& a, const OS& b) { return a == b; }
'''


def select_a(fn, q, lw):
    if q == 'xv_unit::make_default':
        return True
    if q in ('xtl::operator==',) and 'xoptional_sequence' in fn['type']['qualType']:
        return True
    return (q.startswith('xtl::xoptional_array::') or q.startswith('xtl::xoptional_sequence::')) and fn.get('name') in NAMES + ('xoptional_array',) and 'initializer_list' not in fn['type']['qualType']


NAMES = ('xoptional_vector', 'resize', 'at', 'operator[]', 'front', 'back', 'size', 'empty', 'xoptional_sequence')


def select(fn, q, lw):
    if q in ('xtl::operator==', 'xtl::operator!=') and 'xoptional_sequence' in fn['type']['qualType']:
        return True
    return (q.startswith('xtl::xoptional_vector::') or q.startswith('xtl::xoptional_sequence::')) and fn.get('name') in NAMES and 'initializer_list' not in fn['type']['qualType']


def build(tier, workdir, seed):
    pre = '#define XV_GB_int xv_g\n#define XV_W 8ul\ntypedef unsigned char xv_blk;\n#define XV_GB (xv_g / XV_W)\n#define XV_FILL_OFF xv_a4\n'
    ctext = C03_contracts.generate('unsigned_char') + open(os.path.join(VERIF, 'contracts', 'C11_seq.h')).read()
    ra = C03.rec_alias(8) + [(r'xtl::xoptional_vector<int,std::allocator<int>,xtl::xdynamic_bitset<unsigned char>>', 'ov'),
                             (r'xtl::xoptional_sequence<std::vector<int>,xtl::xdynamic_bitset<unsigned char>>', 'os')]
    u = Unit('optv', INST, select, ctext, ra, defines=['NDEBUG'], pre_defs=pre, partial=True).lower(workdir)
    inl = {a: {'inline': [c for c in u.contracts if c.startswith('os__ctor')]} for a in u.contracts if a.startswith('ov__ctor')}
    jobs = u.contract_jobs(PROP, timeout=900, extra=inl, aliases=[a for a in u.contracts if a in u.lw.loops and (a.startswith('ov__') or a.startswith('os__') or a.startswith('op_'))])
    ra3 = C03.rec_alias(8) + [(r'xtl::xoptional_array<int,3,xtl::xdynamic_bitset<unsigned char>>', 'oa'),
                              (r'xtl::xoptional_sequence<std::array<int,3>,xtl::xdynamic_bitset<unsigned char>>', 'os')]
    class UA(Unit):
        unit_roots = True
    u3 = UA('opta', INST_A, select_a, '#define XV_C11_ARRAY 1\n' + ctext, ra3, defines=['NDEBUG'], pre_defs=pre, partial=True).lower(workdir)
    inl3 = {a: {'inline': [c for c in u3.contracts if c.startswith('os__ctor')]} for a in u3.contracts if a.startswith('oa__ctor')}
    inl3.update({a: {'inline': [c for c in u3.contracts if c.startswith('os__ctor') or c.startswith('oa__ctor')]} for a in u3.contracts if 'make_default' in a})
    jobs += u3.contract_jobs(PROP, timeout=900, extra=inl3, aliases=[a for a in u3.contracts if a in u3.lw.loops and (a.startswith('oa__') or a.startswith('os__') or a.startswith('op_') or 'make_default' in a)])
    ra2 = [(r'xtl::xcomplex_vector<int,false,std::allocator<int>>', 'cv'), (r'xtl::xcomplex_sequence<std::vector<int>,false>', 'cs')]
    u2 = Unit('cplxv', INST_C, select_c, open(os.path.join(VERIF, 'contracts', 'C11_cseq.h')).read(), ra2, defines=['NDEBUG'], fn_alias=alias_c).lower(workdir)
    inl2 = {a: {'inline': [c for c in u2.contracts if c.startswith('cs__ctor')]} for a in u2.contracts if a.startswith('cv__ctor')}
    jobs += u2.contract_jobs(PROP, timeout=900, extra=inl2)
    # the paired iterators (xoptional_iterator / xcomplex_iterator of the vector variants): every primitive keeps both sub-iterators at
    # one position and dereferencing designates (values[k], flag k) resp. (real[k], imag[k]) - contracts shared with the C12 check
    from props import C12
    up = Unit('piter', C12.INST_P, C12.select_p, open(os.path.join(VERIF, 'contracts', 'C12_oiter.h')).read(), C12.REC_ALIAS_P, defines=['NDEBUG'], extra_c='int* xv_arr;\nint* xv_arr2;\n').lower(workdir)
    jobs += up.contract_jobs(PROP, aliases=[c for c in up.contracts if c in up.lw.loops and re.match(r'(oit|cit)__', c)], timeout=600, inline_all=True)
    return {'jobs': jobs, 'units': [u, u2, u3, up], 'trusted_base': sorted(set(list(u.std.used) + list(u2.std.used) + list(u3.std.used) + list(up.std.used))) + ['clang 14 AST; xtl2c lowering rules (DESIGN.md 3.2)',
                'xdynamic_bitset members (constructor, resize, at, operator[], front, back, ==) enter through their C03 contracts, which the C03 check proves; std::vector through model/xv_vec.h (inlined C with loop contracts)'],
            'assumptions': ['instantiations: xoptional_vector<int, std::allocator<int>, xdynamic_bitset<uint8_t>>, xoptional_array<int, 3, xdynamic_bitset<uint8_t>>, xcomplex_vector<int, false> (the containers never compute with the elements)',
                            'size arguments up to XV_MAXBLK = 10^6 elements; for the array the size argument equals N (the property says: called with the container\'s own size)',
                            'the lockstep invariant (both storages well formed and of the length of size()) is required on entry and proved on exit of every member: induction over operation histories is the meta-argument',
                            'element writes through a proxy are covered by: the proxy designates exactly (&values[i], flag block/mask of bit i) (this check) + xbitset_reference / xoptional assignment contracts (C03, C04)',
                            'the defaulted constructors are reached through a wrapper in the instantiation unit (xv_unit::make_default) so that the code clang generates for them is lowered'],
            'coverage_extra': {'not_reached': ['begin/end/rbegin/... of the sequences and the const / reverse / array instantiations of the paired iterators (the vector variants\' xoptional_iterator / xcomplex_iterator primitives are under contract)', 'initializer_list constructors', 'xcomplex_array',
                                               'relational operators < <= > >= of the sequences']}}


def replay(ctx, job, ob, steps, base):
    """replay search on the real headers (constructor / resize / write histories against plain models, under ASan)"""
    src = open(os.path.join(VERIF, 'props', 'C11_replay.cpp')).read()
    seed = int(os.environ.get('VERIF_SEED', '0') or 0)
    rc, out = native_run('#define SEED %du\n' % seed + src, base, extra=['-fsanitize=address,undefined', '-fno-sanitize=shift,null', '-fno-sanitize-recover=all', '-O1', '-g'], timeout=300)
    return (rc not in (0, None), (out or '')[-2500:] + '\nprogram: %s.cpp (g++ -fsanitize=address,undefined)' % base)
