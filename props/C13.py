"""C13: base64 round-trips every byte string, matches RFC 4648, and is safe on any input."""
import os, re
from xv.unit import Unit
from xv.driver import Job, VERIF
from xv.prop import native_run

PROP = 'C13'
INST = '''#include <xtl/xbase64.hpp>
std::string (*p1)(const std::string&) = &xtl::base64decode;
std::string (*p2)(const std::string&) = &xtl::base64encode;
'''


def select(fn, q, lw):
    return q in ('xtl::base64decode', 'xtl::base64encode')


def build(tier, workdir, seed):
    ctext = open(os.path.join(VERIF, 'contracts', 'C13_base64.h')).read()
    u = Unit('b64', INST, select, ctext).lower(workdir)
    # loops without loop contract are unwound with unwinding assertions (complete when those pass):
    # the table-building loop of decode (constant trip count, bound 300), the <=2-step inner loop and the <=3-step padding loop of encode
    jobs = u.contract_jobs(PROP, timeout=900, pre_unwind=5, extra={'base64decode__rxv_str': {'pre_unwind': 300}})
    jobs.append(Job('b64__lemma_roundtrip', [os.path.join(VERIF, 'contracts', 'C13_lemma.c')], 'lemma_roundtrip', loop_contracts=False,
                    kind='lemma', prop=PROP, unit='b64', timeout=900, includes=[os.path.join(VERIF, 'contracts')]))
    return {'jobs': jobs, 'units': [u], 'trusted_base': sorted(u.std.used) + ['clang 14 AST; xtl2c lowering rules (DESIGN.md 3.2)',
                'composition of the two function contracts with the spec-level round-trip lemma is a meta-argument (DESIGN.md 4 C13)'],
            'assumptions': ['input length bounded by XV_MAXLEN = 10^6 bytes (heap storage model)',
                            'ghost let-bindings in requires clauses are total definitions (they exclude no input); reachability canaries checked',
                            'std::string modelled as {data,size} with push_back writing data[size]; capacity of the model is asserted, not assumed',
                            'decode table loop (64 iterations) and the <=2 / <=3 step inner loops of encode are unwound with unwinding assertions: width-bounded, complete'],
            'coverage_extra': {'loop_contracts': ['base64encode main loop', 'base64decode main loop'], 'max_input_length': 1000000}}


REPLAY = r'''
#include <xtl/xbase64.hpp>
#include <string>
#include <vector>
#include <cstdio>
#include <cstdlib>
// independent RFC 4648 reference
static const char* AL = "ABCDEFGHIJKLMNOPQRSTUVWXYZabcdefghijklmnopqrstuvwxyz0123456789+/";
static std::string ref_enc(const std::string& s) {
  std::string o; size_t i = 0;
  for (; i + 3 <= s.size(); i += 3) { unsigned v = ((unsigned char)s[i] << 16) | ((unsigned char)s[i+1] << 8) | (unsigned char)s[i+2];
    o += AL[v >> 18]; o += AL[(v >> 12) & 63]; o += AL[(v >> 6) & 63]; o += AL[v & 63]; }
  if (s.size() - i == 1) { unsigned v = (unsigned char)s[i] << 16; o += AL[v >> 18]; o += AL[(v >> 12) & 63]; o += "=="; }
  if (s.size() - i == 2) { unsigned v = ((unsigned char)s[i] << 16) | ((unsigned char)s[i+1] << 8); o += AL[v >> 18]; o += AL[(v >> 12) & 63]; o += AL[(v >> 6) & 63]; o += '='; }
  return o; }
static int val_of(char c) { for (int k = 0; k < 64; ++k) if (AL[k] == c) return k; return -1; }
static std::string ref_dec(const std::string& t) {
  std::vector<int> v; for (char c : t) { int x = val_of(c); if (x < 0) break; v.push_back(x); }
  std::string o; for (size_t g = 0; 8 * g + 8 <= 6 * v.size(); ++g) { size_t s0 = 8 * g / 6, sh = 8 * g - 6 * s0; o += char((((v[s0] << 6) | v[s0 + 1]) >> (4 - sh)) & 0xFF); }
  return o; }
static std::string show(const std::string& s) { std::string r; char b[8]; for (unsigned char c : s) { std::snprintf(b, 8, "\\x%02x", c); r += b; } return r; }
static int check(const std::string& s, const char* what) {
  std::fprintf(stderr, "trying %s input \"%s\"\n", what, show(s).c_str());   // last line before a sanitizer report names the input
  int bad = 0;
  std::string e = xtl::base64encode(s), re = ref_enc(s);
  if (e != re) { std::printf("base64encode(\"%s\") = \"%s\", RFC 4648 gives \"%s\"\n", show(s).c_str(), e.c_str(), re.c_str()); bad = 1; }
  std::string d = xtl::base64decode(s), rd = ref_dec(s);
  if (d != rd) { std::printf("base64decode(\"%s\") = \"%s\", reference gives \"%s\"\n", show(s).c_str(), show(d).c_str(), show(rd).c_str()); bad = 1; }
  if (!bad && xtl::base64decode(e) != s) { std::printf("round trip fails for \"%s\"\n", show(s).c_str()); bad = 1; }
  return bad; }
int main() {
  std::string cex = std::string(CEX_BYTES, CEX_LEN);
  if (check(cex, "verifier counterexample")) return 1;
  // replay search (bounded stand-in for inductive-step failures): all strings up to length 3 over a small byte set, then random ones
  const unsigned char B[] = {0, 'A', 'z', '9', '+', '/', '=', '\n', ' ', 0x7f, 0x80, 0xbe, 0xff};
  for (int len = 0; len <= 3; ++len) { int idx[3] = {0, 0, 0};
    for (;;) { std::string s; for (int k = 0; k < len; ++k) s += (char)B[idx[k]]; if (check(s, "search")) return 1;
      int k = 0; while (k < len && ++idx[k] == (int)sizeof(B)) idx[k++] = 0; if (k == len) break; } }
  unsigned x = SEED * 2654435761u + 12345u;
  for (int it = 0; it < 20000; ++it) { x = x * 1664525u + 1013904223u; int len = (x >> 24) % 24; std::string s;
    for (int k = 0; k < len; ++k) { x = x * 1664525u + 1013904223u; unsigned r = x >> 16; s += (r & 3) ? AL[(r >> 2) & 63] : (char)(r >> 8); }
    if (check(s, "random")) return 1; }
  return 0; }
'''


def tail_from_last_try(out):
    out = out or ''
    i = out.rfind('trying ')
    return out[max(0, i):][:2500]


def replay(ctx, job, ob, steps, base):
    from xv.driver import TraceView
    tv = TraceView(steps)
    o = tv.obj_of('input')
    n = tv.field(o, 'size', 0) or 0
    data_obj = None
    for k, v in tv.last.items():
        if k == (o or '') + '.data' and v:
            m = re.search(r'(dynamic_object(\$\d+)?)', str(v))
            if m:
                data_obj = m.group(1)
    n = min(n, 48)
    bs = tv.elems(data_obj, n, 65) if data_obj else [65] * n
    lit = ''.join('\\x%02x' % ((b if b is not None else 65) & 0xFF) for b in bs)
    seed = int(os.environ.get('VERIF_SEED', '0') or 0)
    prog = '#define CEX_BYTES "%s"\n#define CEX_LEN %d\n#define SEED %du\n' % (lit, n, seed) + REPLAY
    rc, out = native_run(prog, base, extra=['-fsanitize=address,undefined', '-fno-sanitize-recover=all', '-g'])
    confirmed = rc not in (0, None)
    return (confirmed, tail_from_last_try(out) + '\nprogram: %s.cpp (g++ -fsanitize=address,undefined)' % base)
