"""C08: half conversions, arithmetic and comparisons are exactly IEEE 754 binary16."""
import os, re
from xv.unit import Unit
from xv.driver import Job, VERIF
from xv.prop import native_run
from xv.xtl2c import dq as xv_dq

PROP = 'C08'
INST = r'''
#include <xtl/xhalf_float.hpp>
using half_float::half;
namespace hd = half_float::detail;
// arithmetic / comparison / classification operators are non-template inline functions: take their addresses
half (*a1)(half, half) = &half_float::operator+;
half (*a2)(half, half) = &half_float::operator-;
half (*a3)(half, half) = &half_float::operator*;
half (*a4)(half, half) = &half_float::operator/;
bool (*c1)(half, half) = &half_float::operator==;
bool (*c2)(half, half) = &half_float::operator!=;
bool (*c3)(half, half) = &half_float::operator<;
bool (*c4)(half, half) = &half_float::operator>;
bool (*c5)(half, half) = &half_float::operator<=;
bool (*c6)(half, half) = &half_float::operator>=;
half (*u1)(half) = &half_float::operator-;
half (*u2)(half) = &half_float::fabs;
half (*u3)(half, half) = &half_float::copysign;
half (*u4)(half) = &half_float::sqrt;
half (*u5)(half, half, half) = &half_float::fma;
bool (*k1)(half) = &half_float::isfinite;
bool (*k2)(half) = &half_float::isinf;
bool (*k3)(half) = &half_float::isnan;
bool (*k4)(half) = &half_float::isnormal;
bool (*k5)(half) = &half_float::signbit;
int (*k6)(half) = &half_float::fpclassify;
// conversions
template unsigned int hd::float2half_impl<std::round_to_nearest>(float, hd::true_type);
template unsigned int hd::float2half_impl<std::round_to_nearest>(double, hd::true_type);
float cv1(unsigned int v) { return hd::half2float_impl(v, float(), hd::true_type()); }
double cv2(unsigned int v) { return hd::half2float_impl(v, double(), hd::true_type()); }
half cv3(float f) { return half(f); }
float cv4(half h) { return static_cast<float>(h); }
std::size_t hs(half h) { return std::hash<half>()(h); }
'''


def select(fn, q, lw):
    if not q.startswith('half_float::') and not q.startswith('std::hash'):
        return False
    name = fn.get('name', '')
    if q in ('half_float::operator+', 'half_float::operator-', 'half_float::operator*', 'half_float::operator/',
             'half_float::operator==', 'half_float::operator!=', 'half_float::operator<', 'half_float::operator>',
             'half_float::operator<=', 'half_float::operator>=', 'half_float::fabs', 'half_float::copysign', 'half_float::sqrt',
             'half_float::fma', 'half_float::isfinite', 'half_float::isinf', 'half_float::isnan', 'half_float::isnormal',
             'half_float::signbit', 'half_float::fpclassify'):
        return True
    if q in ('half_float::detail::float2half_impl', 'half_float::detail::half2float_impl'):
        t = fn['type']['qualType'] + ' ' + ' '.join(xv_dq(p['type']) for p in lw.params(fn))
        return 'true' in t          # the IEEE (true_type) overloads; the generic frexp-based ones are not used on this platform
    if q.startswith('half_float::half::half') or q.startswith('half_float::half::operator float'):
        return True
    if 'hash' in q and name == 'operator()':
        return True
    return False


def build(tier, workdir, seed):
    ctext = open(os.path.join(VERIF, 'contracts', 'C08_half.h')).read()
    u = Unit('half', INST, select, ctext, [(r'half_float::half', 'half'), (r'std::hash<half_float::half>', 'hhash')],
             no_contract=['half_float__op_mul__half_half', 'half_float__op_div__half_half', 'half_float__fma__half_half_half']).lower(workdir)
    UF = ['half_float__op_mul__half_half', 'half_float__op_div__half_half', 'half_float__fma__half_half_half']
    jobs = u.contract_jobs(PROP, aliases=[c for c in u.contracts if c in u.lw.loops and c not in UF], timeout=900, pre_unwind=12)
    # multiplication and division: * / % abstracted as uninterpreted functions in code and spec (see contracts/C08_half.h)
    sel2 = lambda fn, q, lw: (q in ('half_float::operator*', 'half_float::operator/') and len(lw.params(fn)) == 2 and 'half_float::half (half_float::half, half_float::half)' in fn['type']['qualType']) or q == 'half_float::fma'
    u2 = Unit('half_uf', INST, sel2, '#define XV_UF_UNIT 1\n' + ctext, [(r'half_float::half', 'half'), (r'std::hash<half_float::half>', 'hhash')], uf_mul='muldiv', partial=True).lower(workdir)
    jobs += u2.contract_jobs(PROP, aliases=UF, timeout=1800, pre_unwind=25,
                             extra={'half_float__fma__half_half_half': {'cases': [('zero_or_special', ['XV_CASE_ZERO_OR_SPECIAL=1'])] if tier == 'quick' else [('all', [])]}})
    return {'jobs': jobs, 'units': [u, u2],
            'trusted_base': sorted(u.std.used) + ['clang 14 AST; xtl2c lowering rules (DESIGN.md 3.2)', 'CBMC bit-precise IEEE float theory (used only to state exact half->float values and float comparisons in the spec)',
                                                  'IEEE 754 spec functions in contracts/C08_half.h (xh_round etc.), written from the standard'],
            'assumptions': ['round_to_nearest instantiation (library default); other rounding modes not under contract',
                            'software path only (HALF_ENABLE_F16C_INTRINSICS off in the lowering): "identical with F16C" rests on VCVTPS2PH/VCVTPH2PS being IEEE conversions (ISA manual) - unchecked',
                            'operator*, operator/ and fma: the machine operations * / % are uninterpreted functions applied by code and spec to the same normalised mantissas; only the range axioms stated in the contract are used (true for machine arithmetic); SAT cannot decide multiplier/divider equivalence here',
                            'NaN results: "is a NaN" (payload unspecified by the property)',
                            'normalisation loops (<= 11 / <= 24 steps) are unwound with unwinding assertions: width-bounded, complete',
                            'quick tier proves fma only on the slice where an operand is zero/infinite/NaN (about 8 s); the thorough tier proves all 2^48 triples in one query (about 12 min)',
                            'std::hash<uint16_t> is an uninterpreted function of the value'],
            'coverage_extra': {'domains': {'operator+,-': 'all 2^32 operand pairs in one query each', 'operator*,/': 'all 2^32 pairs (uninterpreted * / %)',
                                           'float->half': 'all 2^32 floats', 'double->half': 'all 2^64 doubles', 'half->float/double': 'all 2^16', 'comparisons': 'all 2^32 pairs each',
                                           'sqrt': 'all 2^16', 'fma': 'quick: special slice; thorough: all 2^48'},
                               'not_reached': ['int2half / half2int (decided with C09 lround family when present)', 'converting constructors from integer types', 'directed rounding modes', 'F16C intrinsic path']}}


def replay(ctx, job, ob, steps, base):
    from xv.driver import TraceView
    tv = TraceView(steps)
    x = tv.num('in_x.data_', tv.num('in_arg.data_', tv.num('in_value', 0)))
    y = tv.num('in_y.data_', 0)
    z = tv.num('in_z.data_', 0)
    f = tv.bits('in_value', 0) or 0
    src = open(os.path.join(VERIF, 'props', 'C08_replay.cpp')).read()
    prog = '#define XV_OP "%s"\n#define XV_X 0x%xu\n#define XV_Y 0x%xu\n#define XV_Z 0x%xu\n#define XV_F 0x%xu\n#define XV_D 0x%xull\n' % (
        job.enforce or job.name, (x or 0) & 0xFFFF, (y or 0) & 0xFFFF, (z or 0) & 0xFFFF, f & 0xFFFFFFFF, f) + src
    rc, out = native_run(prog, base)
    return (rc == 1, (out or '')[-2000:] + '\nprogram: %s.cpp' % base)
