"""C08: half conversions, arithmetic and comparisons are exactly IEEE 754 binary16."""
import os, re
from xv.unit import Unit
from xv.driver import Job, VERIF
from xv.prop import native_run
from xv.xtl2c import dq as xv_dq

PROP = 'C08'
INST = r'''
#include <xtl/xhalf_float.hpp>
using half_float::half;
namespace hd = half_float::detail;
// arithmetic / comparison / classification operators are non-template inline functions: take their addresses
half (*a1)(half, half) = &half_float::operator+;
half (*a2)(half, half) = &half_float::operator-;
half (*a3)(half, half) = &half_float::operator*;
half (*a4)(half, half) = &half_float::operator/;
bool (*c1)(half, half) = &half_float::operator==;
bool (*c2)(half, half) = &half_float::operator!=;
bool (*c3)(half, half) = &half_float::operator<;
bool (*c4)(half, half) = &half_float::operator>;
bool (*c5)(half, half) = &half_float::operator<=;
bool (*c6)(half, half) = &half_float::operator>=;
half (*u1)(half) = &half_float::operator-;
half (*u2)(half) = &half_float::fabs;
half (*u3)(half, half) = &half_float::copysign;
half (*u4)(half) = &half_float::sqrt;
half (*u5)(half, half, half) = &half_float::fma;
bool (*k1)(half) = &half_float::isfinite;
bool (*k2)(half) = &half_float::isinf;
bool (*k3)(half) = &half_float::isnan;
bool (*k4)(half) = &half_float::isnormal;
bool (*k5)(half) = &half_float::signbit;
int (*k6)(half) = &half_float::fpclassify;
// conversions
template unsigned int hd::float2half_impl<std::round_to_nearest>(float, hd::true_type);
template unsigned int hd::float2half_impl<std::round_to_nearest>(double, hd::true_type);
float cv1(unsigned int v) { return hd::half2float_impl(v, float(), hd::true_type()); }
double cv2(unsigned int v) { return hd::half2float_impl(v, double(), hd::true_type()); }
half cv3(float f) { return half(f); }
float cv4(half h) { return static_cast<float>(h); }
std::size_t hs(half h) { return std::hash<half>()(h); }
'''


def select(fn, q, lw):
    if not q.startswith('half_float::') and not q.startswith('std::hash'):
        return False
    name = fn.get('name', '')
    if q in ('half_float::operator+', 'half_float::operator-', 'half_float::operator*', 'half_float::operator/',
             'half_float::operator==', 'half_float::operator!=', 'half_float::operator<', 'half_float::operator>',
             'half_float::operator<=', 'half_float::operator>=', 'half_float::fabs', 'half_float::copysign', 'half_float::sqrt',
             'half_float::fma', 'half_float::isfinite', 'half_float::isinf', 'half_float::isnan', 'half_float::isnormal',
             'half_float::signbit', 'half_float::fpclassify'):
        return True
    if q in ('half_float::detail::float2half_impl', 'half_float::detail::half2float_impl'):
        t = fn['type']['qualType'] + ' ' + ' '.join(xv_dq(p['type']) for p in lw.params(fn))
        return 'true' in t          # the IEEE (true_type) overloads; the generic frexp-based ones are not used on this platform
    if q.startswith('half_float::half::half') or q.startswith('half_float::half::operator float'):
        return True
    if 'hash' in q and name == 'operator()':
        return True
    return False


def build(tier, workdir, seed):
    ctext = open(os.path.join(VERIF, 'contracts', 'C08_half.h')).read()
    u = Unit('half', INST, select, ctext, [(r'half_float::half', 'half'), (r'std::hash<half_float::half>', 'hhash')]).lower(workdir)
    jobs = u.contract_jobs(PROP, timeout=900, pre_unwind=12)
    return {'jobs': jobs, 'units': [u], 'trusted_base': sorted(u.std.used), 'assumptions': [], 'coverage_extra': {}}
