"""C14: byte hashes are pure functions of the bytes and equal reference MurmurHash2."""
import os, re
from xv.unit import Unit
from xv.driver import Job, VERIF
from xv.prop import native_run

PROP = 'C14'
INST = '''#include <xtl/xhash.hpp>
auto p3 = &xtl::murmur2_x64; auto p4 = &xtl::murmur2_x86; auto p5 = &xtl::hash_bytes;
'''


def select(fn, q, lw):
    return q in ('xtl::murmur2_x64', 'xtl::murmur2_x86', 'xtl::hash_bytes')


def build(tier, workdir, seed):
    ctext = open(os.path.join(VERIF, 'contracts', 'C14_hash.h')).read()
    u = Unit('hash', INST, select, ctext, uf_mul=True).lower(workdir)
    jobs = u.contract_jobs(PROP, timeout=900, pre_unwind=9)
    # mechanical scan: ghost hooks may only assign ghost variables (xv_*) and their own block-local temporaries
    for nm, body in re.findall(r'#define (XV_GHOST_\w+)((?:.*\\\n)*.*)', ctext):
        for lhs in re.findall(r'(?:^|[;{(\s])([A-Za-z_]\w*)\s*(?:\^=|\*=|\+=|-=|<<=|>>=|\|=|&=|=)(?!=)', body):
            if not lhs.startswith('xv_') and lhs not in ('GH32', 'GH64'):
                raise Exception('ghost hook %s assigns non-ghost %s' % (nm, lhs))
    # std::hash<xbasic_fixed_string>: hashes exactly the size() characters of the string with the fixed seed (hash_bytes itself: above)
    INST_FS = '''#include <xtl/xbasic_fixed_string.hpp>
using FS = xtl::xbasic_fixed_string<char, 16, xtl::buffer | xtl::store_size, xtl::string_policy::throwing_error>;
std::size_t hs(const FS& s) { return std::hash<FS>()(s); }
'''
    sel_fs = lambda fn, q, lw: q.startswith('std::hash') and fn.get('name') == 'operator()' and 'xbasic_fixed_string' in fn['type']['qualType']
    c_fs = '''#define RV __CPROVER_return_value
/* the packed layout of a 16-character fixed string: 17 bytes, the last one holds 16 - size() */
#define FS_OK(a) (__CPROVER_is_fresh(a, sizeof(*(a))) && (unsigned char)(a)->m_storage.m_buffer[16] <= 16)
#define FS_SIZE(a) (16ul - (unsigned long)(unsigned char)(a)->m_storage.m_buffer[16])
#define XV_CONTRACT_fsh__op_call__rfs_c __CPROVER_requires(__CPROVER_is_fresh(self, sizeof(*self)) && FS_OK(arg)) \\
  __CPROVER_ensures(RV == __CPROVER_uninterpreted_hb(0ul, FS_SIZE(arg), 0xc70f6907ul)) __CPROVER_assigns()
'''
    x_fs = '''/* xtl::hash_bytes as seen by its caller: reads `length` bytes at `buffer` (checked), result = a function of (where in the
   argument object it starts, length, seed); that it is a function of the BYTES is what the hash unit above proves */
unsigned long __CPROVER_uninterpreted_hb(unsigned long, unsigned long, unsigned long);
unsigned long hash_bytes__pv_ul_ul(void* buffer, unsigned long length, unsigned long seed)
{
  __CPROVER_assert(length == 0 || __CPROVER_r_ok(buffer, length), "hash_bytes is given a length inside the string object");
  return __CPROVER_uninterpreted_hb((unsigned long)__CPROVER_POINTER_OFFSET(buffer), length, seed);
}
'''
    ufs = Unit('fshash', INST_FS, sel_fs, 'unsigned long __CPROVER_uninterpreted_hb(unsigned long, unsigned long, unsigned long);\n' + c_fs,
               [(r'xtl::xbasic_fixed_string<char,16,.*>', 'fs'), (r'std::hash<xtl::xbasic_fixed_string<.*>>', 'fsh')], opaque=[r'xtl::hash_bytes'], extra_c=x_fs).lower(workdir)
    jobs += ufs.contract_jobs(PROP, timeout=300, inline_all=True)
    return {'jobs': jobs, 'units': [u, ufs], 'trusted_base': sorted(u.std.used) + ['clang 14 AST; xtl2c lowering rules (DESIGN.md 3.2)',
                'reference MurmurHash2 / MurmurHash64A transcribed as ghost code in contracts/C14_hash.h'],
            'assumptions': ['unsigned multiplication is an uninterpreted function in this unit (code and reference agree for every interpretation of *, hence for machine multiplication); SAT cannot decide multiplier miters here',
                            'unaligned *(uint32_t*) loads and memcpy block loads are modelled as on x86-64 (little-endian byte order, no alignment traps)',
                            'buffer length bounded by XV_MAXLEN = 10^6 (so static_cast<uint32_t>(length) is exact)',
                            'load_bytes (<= 7 iterations) is inlined and unwound with unwinding assertions: width-bounded, complete',
                            'std::hash<xbasic_fixed_string<char,16>>: proved to call hash_bytes on exactly the size() characters with the fixed seed and a length inside the object (unit fshash; hash_bytes there is an uninterpreted function of start offset, length, seed)'],
            'coverage_extra': {'not_reached': [],
                               'loop_contracts': ['murmur2_x86_impl block loop', 'murmur_hash<8> block loop']}}


REPLAY = r'''
#include <xtl/xhash.hpp>
#include <cstdio>
#include <cstdlib>
#include <cstring>
#include <cstdint>
// independent references (Austin Appleby, MurmurHash2.cpp), reading byte by byte
static uint32_t ref32(const unsigned char* d, size_t len, uint32_t seed) {
  const uint32_t m = 0x5bd1e995; uint32_t h = seed ^ (uint32_t)len; size_t n = len;
  while (n >= 4) { uint32_t k = d[0] | (d[1] << 8) | (d[2] << 16) | ((uint32_t)d[3] << 24); k *= m; k ^= k >> 24; k *= m; h *= m; h ^= k; d += 4; n -= 4; }
  switch (n) { case 3: h ^= d[2] << 16; case 2: h ^= d[1] << 8; case 1: h ^= d[0]; h *= m; }
  h ^= h >> 13; h *= m; h ^= h >> 15; return h; }
static uint64_t ref64(const unsigned char* d, size_t len, uint64_t seed) {
  const uint64_t m = 0xc6a4a7935bd1e995ULL; const int r = 47; uint64_t h = seed ^ (len * m); size_t n = len;
  while (n >= 8) { uint64_t k = 0; for (int i = 7; i >= 0; --i) k = (k << 8) | d[i]; k *= m; k ^= k >> r; k *= m; h ^= k; h *= m; d += 8; n -= 8; }
  switch (n) { case 7: h ^= (uint64_t)d[6] << 48; case 6: h ^= (uint64_t)d[5] << 40; case 5: h ^= (uint64_t)d[4] << 32; case 4: h ^= (uint64_t)d[3] << 24;
               case 3: h ^= (uint64_t)d[2] << 16; case 2: h ^= (uint64_t)d[1] << 8; case 1: h ^= (uint64_t)d[0]; h *= m; }
  h ^= h >> r; h *= m; h ^= h >> r; return h; }
static int check(const unsigned char* bytes, size_t len, uint64_t seed, const char* what) {
  // exact-size heap block (AddressSanitizer flags any read outside [buffer, buffer+length))
  unsigned char* b = (unsigned char*)std::malloc(len ? len : 1); std::memcpy(b, bytes, len);
  std::fprintf(stderr, "trying %s: length %zu seed %llu\n", what, len, (unsigned long long)seed);
  int bad = 0;
  uint32_t a = xtl::murmur2_x86(len ? b : b, len, (uint32_t)seed), ra = ref32(b, len, (uint32_t)seed);
  if (a != ra) { std::printf("murmur2_x86(len=%zu, seed=%u) = 0x%08x, reference MurmurHash2 0x%08x\n", len, (uint32_t)seed, a, ra); bad = 1; }
  uint64_t c = xtl::murmur2_x64(b, len, seed), rc = ref64(b, len, seed);
  if (c != rc) { std::printf("murmur2_x64(len=%zu, seed=%llu) = 0x%016llx, reference MurmurHash64A 0x%016llx\n", len, (unsigned long long)seed, (unsigned long long)c, (unsigned long long)rc); bad = 1; }
  size_t hb = xtl::hash_bytes(b, len, (size_t)seed);
  if (hb != rc) { std::printf("hash_bytes(len=%zu) = 0x%016llx, reference 0x%016llx\n", len, (unsigned long long)hb, (unsigned long long)rc); bad = 1; }
  if (bad) { std::printf("bytes:"); for (size_t i = 0; i < len && i < 48; ++i) std::printf(" %02x", b[i]); std::printf("\n"); }
  std::free(b); return bad; }
int main() {
  static const unsigned char cex[] = { CEX_BYTES 0 };
  if (check(cex, CEX_LEN, CEX_SEED, "verifier counterexample")) return 1;
  unsigned x = SEED * 2654435761u + 99u; unsigned char buf[64];
  for (size_t len = 0; len <= 40; ++len) for (int rep = 0; rep < 6; ++rep) {
    for (size_t i = 0; i < len; ++i) { x = x * 1664525u + 1013904223u; buf[i] = (rep & 1) ? (unsigned char)(0x80 | (x >> 24)) : (unsigned char)(x >> 24); }
    x = x * 1664525u + 1013904223u; if (check(buf, len, rep < 2 ? 0 : ((uint64_t)x << 32) | x, "search")) return 1; }
  return 0; }
'''


def tail_from_last_try(out):
    out = out or ''
    i = out.rfind('trying ')
    return out[max(0, i):][:2500]


def replay(ctx, job, ob, steps, base):
    from xv.driver import TraceView
    tv = TraceView(steps)
    o = tv.obj_of('buffer')
    n = min(tv.num('in_length', 0) or 0, 40)
    bs = tv.elems(o, n, 0x80) if o else [0x80] * n
    lit = ''.join('0x%02x, ' % ((b if b is not None else 0x80) & 0xFF) for b in bs)
    seed = tv.num('in_seed', 0) or 0
    prog = '#define CEX_BYTES %s\n#define CEX_LEN %d\n#define CEX_SEED %dull\n#define SEED %du\n' % (lit, n, seed, int(os.environ.get('VERIF_SEED', '0') or 0)) + REPLAY
    rc, out = native_run(prog, base, extra=['-fsanitize=address,undefined', '-fno-sanitize-recover=all', '-g'])
    return (rc not in (0, None), tail_from_last_try(out) + '\nprogram: %s.cpp (g++ -fsanitize=address,undefined)' % base)
