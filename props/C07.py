"""C07: closures alias lvalues and own rvalues; writes go through to the referent, copies designate the same referent."""
import os, re
from xv.unit import Unit
from xv.stdmodel import StdModel
from xv.driver import Job, VERIF
from xv.prop import native_run

PROP = 'C07'
# one wrapper per (source expression category x operation); the library code is inlined into the wrapper's proof
INST = '''#include <xtl/xclosure.hpp>
#include <xtl/xoptional.hpp>
#include <xtl/xdynamic_bitset.hpp>
#include <xtl/xsequence.hpp>
namespace xv_unit {
// instrumented payload: a move pilfers the source and says so
struct P { int v; int moved_from;
  P() : v(0), moved_from(0) {} P(const P& o) : v(o.v), moved_from(0) {} P(P&& o) : v(o.v), moved_from(0) { o.moved_from = 1; }
  P& operator=(const P& o) { v = o.v; return *this; } P& operator=(P&& o) { v = o.v; o.moved_from = 1; return *this; } };
using OPR = xtl::xoptional<P&, bool&>;
using OPV = xtl::xoptional<P, bool>;
OPV take_ref(OPR&& o) { return OPV(static_cast<OPR&&>(o)); }         // an optional of references, even an rvalue one, does not own its referent
OPV take_val(OPV&& o) { return OPV(static_cast<OPV&&>(o)); }         // an owning rvalue may be pilfered
using V = std::vector<int>;
using A3 = std::array<int, 3>;
const V* fwd_cv(const V& v) { auto&& r = xtl::forward_sequence<V, const V&>(v); return &r; }   // same type: forwarded as the SAME object
V* fwd_v(V& v) { auto&& r = xtl::forward_sequence<V, V&>(v); return &r; }
const A3* fwd_ca(const A3& a) { auto&& r = xtl::forward_sequence<A3, const A3&>(a); return &r; }
using WR = xtl::xclosure_wrapper<int&>;
using WC = xtl::xclosure_wrapper<const int&>;
using WV = xtl::xclosure_wrapper<int>;
WR mk_lv(int& x) { return xtl::closure(x); }                       // lvalue -> reference closure
WC mk_clv(const int& x) { return xtl::closure(x); }                // const lvalue -> const reference closure
WV mk_rv(int&& x) { return xtl::closure(static_cast<int&&>(x)); }  // rvalue -> owning closure
auto mk_crv(const int&& x) { return xtl::closure(static_cast<const int&&>(x)); }
WC mk_const(int& x) { return xtl::const_closure(x); }
void assign_v(WR& w, const int& v) { w = v; }                      // assigning through a reference closure changes the referent
void assign_w(WR& a, const WR& b) { a = b; }                       // ... and never rebinds
void assign_owned(WV& a, const WV& b) { a = b; }
WR copy_w(const WR& w) { return WR(w); }                           // a copy designates the same referent
void swap_w(WR& a, WR& b) { a.swap(b); }                           // swap exchanges referent values
void swap_free(WR& a, WR& b) { swap(a, b); }
int* addr_w(WR& w) { return &w; }                                  // & yields a pointer designating the referent
int* addr_owned(WV& w) { return &w; }
int& get_w(WR& w) { return w.get(); }
int conv_w(WR& w) { int& r = w; return r; }
bool eq_w(const WR& a, const WR& b) { return a == b; }
// optional over reference closures
using OR = xtl::xoptional<int&, bool&>;
using OV = xtl::xoptional<int, bool>;
OR opt_lv(int& x, bool& f) { return xtl::optional(x, f); }
OV opt_rv(int&& x, bool&& f) { return xtl::optional(static_cast<int&&>(x), static_cast<bool&&>(f)); }
void opt_assign(OR& o, const OV& v) { o = v; }
OV opt_copy_out(const OR& o) { return OV(o); }
// explicit trait instantiations for rvalue-reference source expressions: the closure must own a value, not alias the source
using WKR = xtl::xclosure_wrapper<xtl::const_closure_type_t<int&&>>;
using WTR = xtl::xclosure_wrapper<xtl::closure_type_t<int&&>>;
bool trait_const_rv_aliases(int&& x) { WKR w(static_cast<int&&>(x)); return &w.get() == &x; }
bool trait_rv_aliases(int&& x) { WTR w(static_cast<int&&>(x)); return &w.get() == &x; }
bool trait_const_lv_aliases(int& x) { xtl::xclosure_wrapper<xtl::const_closure_type_t<int&>> w(x); return &w.get() == &x; }
bool trait_lv_aliases(int& x) { xtl::xclosure_wrapper<xtl::closure_type_t<int&>> w(x); return &w.get() == &x; }
bool trait_clv_aliases(const int& x) { xtl::xclosure_wrapper<xtl::closure_type_t<const int&>> w(x); return &w.get() == &x; }
// extracting from an rvalue owning closure yields an independent object, from an rvalue reference closure the referent
bool get_rv_owned_aliases(WV&& w) { auto&& r = static_cast<WV&&>(w).get(); return &r == &w.get(); }
int* get_rv_ref(WR&& w) { auto&& r = static_cast<WR&&>(w).get(); return &r; }
// free value() / has_value() on a temporary optional of references designate the referents
int* val_rv(int& x, bool& f) { auto&& r = xtl::value(xtl::optional(x, f)); return &r; }
bool* hasval_rv(int& x, bool& f) { auto&& r = xtl::has_value(xtl::optional(x, f)); return &r; }
int* val_lv(OR& o) { return &xtl::value(o); }
bool* hasval_lv(OR& o) { return &xtl::has_value(o); }
// closure pointers
int* cp_lv(int& x) { auto p = xtl::closure_pointer(x); return &*p; }
const int* ccp_lv(int& x) { auto p = xtl::const_closure_pointer(x); return &*p; }
bool cp_rv_aliases(int&& x) { auto p = xtl::closure_pointer(static_cast<int&&>(x)); return &*p == &x; }
int cp_rv_val(int&& x) { auto p = xtl::closure_pointer(static_cast<int&&>(x)); return *p; }
int* cp_arrow(int& x) { auto p = xtl::closure_pointer(x); return p.operator->(); }
// bitset element references
using BS = xtl::xdynamic_bitset<unsigned char>;
using BR = BS::reference;
void bref_assign(BR& a, const BR& b) { a = b; }
void bref_assign_bool(BR& a, bool v) { a = v; }
}
'''


def alias(fn, q):
    # only the free wrapper functions get the short names (members of the payload class keep the generated ones)
    return 'w_' + fn.get('name') if q.startswith('xv_unit::') and q.count('::') == 1 and fn.get('kind') == 'FunctionDecl' else None


def select(fn, q, lw):
    return q.startswith('xv_unit::') and q.count('::') == 1 and fn.get('kind') == 'FunctionDecl'


class U(Unit):
    unit_roots = True


def build(tier, workdir, seed):
    ctext = open(os.path.join(VERIF, 'contracts', 'C07_closure.h')).read()
    ra = [(r'xtl::xclosure_wrapper<const int&>', 'wc'), (r'xtl::xclosure_wrapper<const int>', 'wcv'), (r'xtl::xclosure_wrapper<int&>', 'wr'), (r'xtl::xclosure_wrapper<int>', 'wv'), (r'xtl::xoptional<int,bool>', 'ov'),
          (r'xtl::xbitset_reference<xtl::xdynamic_bitset<unsigned char>,false>', 'br')]
    u = U('clos', INST, select, ctext, ra, fn_alias=alias, defines=['NDEBUG']).lower(workdir)
    jobs = u.contract_jobs(PROP, timeout=600, inline_all=True)
    return {'jobs': jobs, 'units': [u], 'trusted_base': sorted(u.std.used) + ['clang 14 AST; xtl2c lowering rules (DESIGN.md 3.2): a C++ reference member / parameter / result is a C pointer, so aliasing is pointer identity',
                'clang overload resolution and template argument deduction select the closure types (closure_type_t etc.): the contracts are attached to what clang instantiated'],
            'assumptions': ['payload int (and one instrumented class P for move-from detection); wrapper kinds: xclosure_wrapper<T&/const T&/T/const T>, xoptional<T&, bool&> / xoptional<T, bool>, xbitset_reference, forward_sequence on std::vector<int> / std::array<int,3>',
                            'source categories: T&, const T&, T&&, const T&& for closure(); T& / T&& pairs for optional(); const T& / T& for forward_sequence',
                            'each wrapper function of the instantiation unit fixes one category and one operation; sequences of operations are covered by the invariant-style contracts (the closure designates the same referent after every operation)',
                            '"stays valid after the temporary is gone" is decided as: the owning closure stores a value (struct member), not a pointer - lifetime itself is not modelled'],
            'coverage_extra': {'not_reached': ['xclosure_pointer, xproxy_wrapper', 'xcomplex / xmasked_value closures (C10 covers xcomplex reference closures)', 'compile-time identities of closure_type_t for all cv/ref combinations (type-level; only the instantiated ones are observed)',
                                               'move-only payloads']}}


def replay(ctx, job, ob, steps, base):
    src = open(os.path.join(VERIF, 'props', 'C07_replay.cpp')).read()
    rc, out = native_run(src, base, extra=['-fsanitize=address,undefined', '-fno-sanitize=shift,null', '-fno-sanitize-recover=all'], timeout=120)
    return (rc not in (0, None), (out or '')[-2000:] + '\nprogram: %s.cpp (g++ -fsanitize=address,undefined)' % base)
