"""C04: missing values propagate through every xoptional operator and are never evaluated (xoptional part; generated contracts)."""
import os, re
from xv.unit import Unit
from xv.driver import Job, VERIF
from xv.prop import native_run
from xv.xtl2c import dq, strip_cv

PROP = 'C04'
BIN = {'operator+': '+', 'operator-': '-', 'operator*': '*', 'operator/': '/', 'operator%': '%', 'operator&': '&', 'operator|': '|', 'operator^': '^',
       'operator&&': '&&', 'operator||': '||', 'operator<': '<', 'operator<=': '<=', 'operator>': '>', 'operator>=': '>='}
UNA = {'operator-': '-', 'operator+': '+', 'operator~': '~', 'operator!': '!'}
CMP = {'operator==': '==', 'operator!=': '!='}
ASG = {'operator+=': '+', 'operator-=': '-', 'operator*=': '*', 'operator/=': '/', 'operator%=': '%', 'operator&=': '&', 'operator|=': '|', 'operator^=': '^'}
MATH1 = ['abs', 'fabs', 'exp', 'exp2', 'expm1', 'log', 'log10', 'log2', 'log1p', 'sqrt', 'cbrt', 'sin', 'cos', 'tan', 'acos', 'asin', 'atan', 'sinh', 'cosh', 'tanh',
         'acosh', 'asinh', 'atanh', 'erf', 'erfc', 'tgamma', 'lgamma', 'ceil', 'floor', 'trunc', 'round', 'nearbyint', 'rint']
MATHB = ['isfinite', 'isinf', 'isnan']
MATH2 = ['fmod', 'remainder', 'fmax', 'fmin', 'fdim', 'pow', 'hypot', 'atan2']
MATH3 = ['fma']


def inst_text(fam='xoptional'):
    o = ['#include <xtl/%s.hpp>' % fam, 'using OI = xtl::%s<int>;' % fam, 'using OD = xtl::%s<double>;' % fam, 'using ORI = xtl::%s<int&, bool&>;' % fam, 'using OII = xtl::%s<int, int>;' % fam]
    k = [0]

    def f(body):
        k[0] += 1
        o.append('auto c%d(%s) { return %s; }' % (k[0], body[0], body[1]))
    for nm, op in BIN.items():
        f(('const OI& a, const OI& b', 'a %s b' % op)); f(('const int& a, const OI& b', 'a %s b' % op)); f(('const OI& a, const int& b', 'a %s b' % op))
    for op in ('<', '<=', '>', '>='):
        # ordering comparisons on double operands too: with a NaN every ordering comparison is false, so a derived form such as !(b < a) for a <= b shows
        f(('const OD& a, const OD& b', 'a %s b' % op)); f(('const double& a, const OD& b', 'a %s b' % op)); f(('const OD& a, const double& b', 'a %s b' % op))
    for nm, op in UNA.items():
        if fam == 'xoptional' or op in ('-', '!'):
            f(('const OI& a', '%sa' % op))
    for nm, op in CMP.items():
        f(('const OI& a, const OI& b', 'a %s b' % op)); f(('const int& a, const OI& b', 'a %s b' % op)); f(('const OI& a, const int& b', 'a %s b' % op))
        # double operands: an ordering comparison with a NaN is false, so a derived form such as !(b < a) for a <= b is visible
        f(('const OD& a, const OD& b', 'a %s b' % op)); f(('const double& a, const OD& b', 'a %s b' % op)); f(('const OD& a, const double& b', 'a %s b' % op))
        # non-bool flag closures: "a falsy flag means missing"
        f(('const OII& a, const OII& b', 'a %s b' % op)); f(('const OII& a, const OI& b', 'a %s b' % op))
    for nm, op in ASG.items():
        o.append('void a%d(OI& a, const OI& b) { a %s= b; }' % (k[0], op)); k[0] += 1
        o.append('void a%d(OI& a, const int& b) { a %s= b; }' % (k[0], op)); k[0] += 1
        o.append('void a%d(ORI& a, const OI& b) { a %s= b; }' % (k[0], op)); k[0] += 1
        o.append('void a%d(ORI& a, const int& b) { a %s= b; }' % (k[0], op)); k[0] += 1
    for nm in MATH1 + MATHB:
        f(('const OD& a', 'xtl::%s(a)' % nm))
    for nm in MATH2:
        f(('const OD& a, const OD& b', 'xtl::%s(a, b)' % nm)); f(('const double& a, const OD& b', 'xtl::%s(a, b)' % nm)); f(('const OD& a, const double& b', 'xtl::%s(a, b)' % nm))
    for nm in MATH3:
        for pat in ('ooo', 'oos', 'oso', 'soo', 'oss', 'sos', 'sso'):
            ps = ', '.join('const %s& %s' % ('OD' if c == 'o' else 'double', v) for c, v in zip(pat, 'abc'))
            f((ps, 'xtl::%s(a, b, c)' % nm))
    if fam == 'xoptional':
        # mixed precision: the result type is the common type of ALL operands (double), whichever position the widest one has
        f(('const xtl::xoptional<float>& a, const double& b, const float& c', 'xtl::fma(a, b, c)'))
        f(('const float& a, const xtl::xoptional<double>& b, const float& c', 'xtl::fma(a, b, c)'))
        f(('const OI& c, const OI& a, const OI& b', 'xtl::select(c, a, b)')); f(('const bool& c, const OI& a, const OI& b', 'xtl::select(c, a, b)'))
        f(('const xtl::xoptional<bool>& c, const int& a, const OI& b', 'xtl::select(c, a, b)')); f(('const xtl::xoptional<bool>& c, const OI& a, const int& b', 'xtl::select(c, a, b)'))
        f(('const OI& a, const int& d', 'a.value_or(d)'))
    else:
        o.append('void s1(OI& a, const OI& b) { a = b; }')
        o.append('void s2(OI& a, const int& b) { a = b; }')
    return '\n'.join(o) + '\n'


NAMES = set(BIN) | set(UNA) | set(CMP) | set(ASG) | set(MATH1) | set(MATHB) | set(MATH2) | set(MATH3) | {'select', 'value_or'}


FAMS = ('xoptional', 'xmasked_value')


def select(fn, q, lw):
    if fn.get('name') not in NAMES and fn.get('name') != 'operator=':
        return False
    if not (q.startswith('xtl::') and any(f in fn['type']['qualType'] or f in q for f in FAMS)):
        return False
    if fn.get('name') == 'operator=' and (fn.get('isImplicit') or fn.get('explicitlyDefaulted') or 'xmasked_value' not in q):
        return False
    return True


def opx(op, a, b):
    """the underlying operation in the spec: * / % are the same uninterpreted functions the lowered code uses"""
    if op == '*':
        return 'XV_SMUL32(%s, %s)' % (a, b)
    if op == '/':
        return 'XV_SDIV32_SPEC(%s, %s)' % (a, b)
    if op == '%':
        return 'XV_SMOD32_SPEC(%s, %s)' % (a, b)
    return '(%s %s %s)' % (a, op, b)


def pkind(lw, p, rec_of):
    """('opt', record) / ('scalar', ctype)"""
    t = strip_cv(dq(p['type'])).rstrip('& ').strip()
    rec = lw.find_record(t)
    if rec is not None and rec.get('name') in FAMS:
        return 'opt', rec
    return 'scalar', lw.ctype(t)


def field_is_ptr(lw, rec, name):
    for c in rec.get('inner', []):
        if c.get('kind') == 'FieldDecl' and c['name'] == name:
            return lw.ctype(dq(c['type'])).endswith('*')
    return False


def gen_contracts(unit, lw, roots):
    out = ['/* generated: one contract per instantiated overload.  flag(result) == AND of the flags of the optional operands;',
           '   flag(result) ==> value(result) == the same operation on the underlying values; no precondition constrains the VALUE of a missing operand',
           '   (so the division-by-zero obligation on / and % proves that the operation is not evaluated on a missing operand). */',
           '#define RV __CPROVER_return_value', '#define OBJ(p) __CPROVER_is_fresh(p, sizeof(*(p)))',
           '#define XV_BOOL_OK(x) (*(const unsigned char*)&(x) <= 1)',
           '/* equality of doubles as values: equal, or both NaN (the lifted function returns what the <cmath> function returns) */',
           '#define DEQ(a, b) (((a) == (b)) || ((a) != (a) && (b) != (b)))']
    unit.gen_info = {}
    for fn in roots:
        a = lw.cname(fn)
        name = fn['name']
        ps = lw.params(fn)
        rec = lw.tu.rec_of_member.get(fn['id'])
        is_method = lw.is_method(fn)
        req, flags, vals, frame = [], [], [], []
        operands = []
        if is_method:
            kind = ('opt', rec)
            operands.append(('self', kind))
        for p in ps:
            operands.append((p.get('name'), pkind(lw, p, rec)))
        ok = True
        for nm, (kd, info) in operands:
            req.append('OBJ(%s)' % nm)
            if kd == 'opt':
                FL = 'm_flag' if info.get('name') == 'xoptional' else 'm_visible'
                vp, fp = field_is_ptr(lw, info, 'm_value'), field_is_ptr(lw, info, FL)
                if vp:
                    req.append('OBJ(%s->m_value)' % nm)
                if fp:
                    req.append('OBJ(%s->%s)' % (nm, FL))
                fexpr = ('(*%s->' + FL + ')' if fp else '%s->' + FL) % nm
                fct = [lw.ctype(dq(c['type'])) for c in info.get('inner', []) if c.get('kind') == 'FieldDecl' and c['name'] == FL][0]
                if fct.rstrip('*') == '_Bool':
                    req.append('XV_BOOL_OK(%s)' % fexpr)      # a C++ bool object holds 0 or 1 (type invariant of the input)
                flags.append('(%s != 0)' % fexpr)              # presence = truthiness of the flag
                vals.append(('(*%s->m_value)' if vp else '%s->m_value') % nm)
            else:
                flags.append(None)
                vals.append('(*%s)' % nm)
                if info == '_Bool':
                    req.append('XV_BOOL_OK(*%s)' % nm)
        present = ' && '.join(f for f in flags if f) or '1'
        cl = ['__CPROVER_requires(%s)' % ' && '.join(req)]
        rrec = lw.find_record(strip_cv(lw.ret_cpp_type(fn)).rstrip('& '))
        RF = 'RV.m_flag' if (rrec is None or rrec.get('name') == 'xoptional') else 'RV.m_visible'
        SF = 'm_flag' if (rec is None or rec.get('name') == 'xoptional') else 'm_visible'
        if name in ASG or name == 'operator=':
            op = ASG.get(name, '=')
            tgtf, tgtv = flags[0], vals[0]
            if op in ('/', '%'):
                cl.append('/* a PRESENT divisor must be non-zero (undefined for the underlying type); a missing one may hold anything */')
                cl.append('__CPROVER_requires((%s) ==> %s != 0)' % (flags[1] or '1', vals[1]))
            tgtf_l = tgtf[1:-len(' != 0)')]
            cl.append('__CPROVER_ensures(%s == (__CPROVER_old(%s) && %s))' % (tgtf, tgtf_l, flags[1] or '1'))
            cl.append('__CPROVER_ensures(%s ==> %s == %s)' % (tgtf, tgtv, vals[1] if op == '=' else opx(op, '__CPROVER_old(%s)' % tgtv, vals[1])))
            cl.append('/* a missing result leaves the target value alone */')
            cl.append('__CPROVER_ensures(!%s ==> %s == __CPROVER_old(%s))' % (tgtf, tgtv, tgtv))
            cl.append('__CPROVER_ensures(RV == self)')
            tgt_frame = []
            tgt_frame.append('*self->%s' % SF if field_is_ptr(lw, rec, SF) else 'self->%s' % SF)
            tgt_frame.append('*self->m_value' if field_is_ptr(lw, rec, 'm_value') else 'self->m_value')
            cl.append('__CPROVER_assigns(%s)' % ', '.join(tgt_frame))
        elif name in CMP and len(operands) == 2:
            neg = name == 'operator!='
            f1, f2 = flags
            if f1 and f2:
                spec = '((!%s && !%s) || (%s && %s && %s == %s))' % (f1, f2, f1, f2, vals[0], vals[1])
            else:
                f = f1 or f2
                spec = '(%s && %s == %s)' % (f, vals[0], vals[1])
            cl.append('/* two missing values are equal, a missing and a present one are not; != is the exact negation */')
            cl.append('__CPROVER_ensures(RV == %s%s)' % ('!' if neg else '', spec))
            cl.append('__CPROVER_assigns()')
        elif name in BIN and len(operands) == 2:
            op = BIN[name]
            if op in ('/', '%'):
                cl.append('__CPROVER_requires((%s) ==> %s != 0)' % (flags[1] or '1', vals[1]))
            cl.append('__CPROVER_ensures(@RF@ == (%s))' % present)
            cl.append('__CPROVER_ensures(@RF@ ==> RV.m_value == %s)' % opx(op, vals[0], vals[1]))
            cl.append('__CPROVER_assigns()')
        elif name in UNA and len(operands) == 1:
            op = UNA[name]
            cl.append('__CPROVER_ensures(@RF@ == (%s))' % present)
            cl.append('__CPROVER_ensures(@RF@ ==> RV.m_value == (%s%s))' % (op, vals[0]))
            cl.append('__CPROVER_assigns()')
        elif name in MATH1 + MATHB + MATH2 + MATH3:
            cl.append('__CPROVER_ensures(@RF@ == (%s))' % present)
            cast = '(_Bool)' if name in MATHB else ''
            if name in MATHB:
                cl.append('__CPROVER_ensures(@RF@ ==> RV.m_value == (_Bool)XV_MATH_%s(%s))' % (name, ', '.join(vals)))
            else:
                cl.append('__CPROVER_ensures(@RF@ ==> DEQ(RV.m_value, XV_MATH_%s(%s)))' % (name, ', '.join(vals)))
            cl.append('__CPROVER_assigns()')
        elif name == 'select':
            cf, cv = flags[0], vals[0]
            cl.append('/* missing when the condition is missing, otherwise the chosen branch unchanged (value and flag) */')
            cl.append('__CPROVER_ensures(@RF@ == (%s && (%s ? %s : %s)))' % (cf or '1', cv, flags[1] or '1', flags[2] or '1'))
            cl.append('__CPROVER_ensures(@RF@ ==> RV.m_value == (%s ? %s : %s))' % (cv, vals[1], vals[2]))
            cl.append('__CPROVER_assigns()')
        elif name == 'value_or':
            cl.append('__CPROVER_ensures(RV == (%s ? %s : %s))' % (flags[0], vals[0], vals[1]))
            cl.append('__CPROVER_assigns()')
        else:
            ok = False
        if ok:
            out.append(('#define XV_CONTRACT_%s \\\n  %s' % (a, ' \\\n  '.join(cl))).replace('@RF@', RF))
            unit.gen_info[a] = {'name': name, 'operands': [(n, k[0]) for n, k in operands]}
    return '\n'.join(out) + '\n'


class MathStd(__import__('xv.stdmodel', fromlist=['StdModel']).StdModel):
    """<cmath> functions called by the lifted overloads are uninterpreted functions of their arguments (XV_MATH_<name>)"""
    def function(self, callee, args, em, n):
        q = em.tu.qualname(callee)
        nm = q.split('::')[-1]
        if not em.tu.in_repo(callee) and nm in MATH1 + MATHB + MATH2 + MATH3:
            self.used.add('<cmath> %s: uninterpreted function' % nm)
            return 'XV_MATH_%s(%s)' % (nm, ', '.join(em.rv_or_lv(x) for x in args))
        return super().function(callee, args, em, n)


def math_defs():
    o = []
    for nm in MATH1 + MATHB:
        o.append('double __CPROVER_uninterpreted_m_%s(double);\n#define XV_MATH_%s(a) __CPROVER_uninterpreted_m_%s((double)(a))' % (nm, nm, nm))
    for nm in MATH2:
        o.append('double __CPROVER_uninterpreted_m_%s(double, double);\n#define XV_MATH_%s(a, b) __CPROVER_uninterpreted_m_%s((double)(a), (double)(b))' % (nm, nm, nm))
    for nm in MATH3:
        o.append('double __CPROVER_uninterpreted_m_%s(double, double, double);\n#define XV_MATH_%s(a, b, c) __CPROVER_uninterpreted_m_%s((double)(a), (double)(b), (double)(c))' % (nm, nm, nm))
    return '\n'.join(o) + '\n'


def build(tier, workdir, seed):
    units, jobs = [], []
    for nm, fam in (('opt', 'xoptional'), ('msk', 'xmasked_value')):
        u = Unit(nm, inst_text(fam), select, gen_contracts, [], std=MathStd(), pre_defs=math_defs(), uf_mul='all').lower(workdir)
        units.append(u)
        jobs += u.contract_jobs(PROP, timeout=300, inline_all=True)
    overloads = sum(len(u.gen_info) for u in units)
    return {'jobs': jobs, 'units': units,
            'trusted_base': sorted(set(sum([list(u.std.used) for u in units], []))) + ['clang 14 overload resolution / template instantiation (each contract is attached to the overload clang selected)', 'xtl2c lowering rules (DESIGN.md 3.2)'],
            'assumptions': ['operand types: int (operators, compound assignments, select, value_or) and double (lifted <cmath> functions); closures: value (T, bool), reference (T&, bool&) for compound-assignment targets, int flags for ==/!=',
                            'machine * / % on int are uninterpreted functions shared by code and spec; integer / and % keep their division-by-zero obligation, and no precondition constrains the value of a MISSING operand: that obligation is what proves non-evaluation on missing operands',
                            '<cmath> functions are uninterpreted functions of their arguments (equal arguments, equal result); equality of double results is "equal or both NaN"',
                            'non-evaluation of NON-trapping operations on missing operands is not observable with these operand types (an instrumented operand type would be needed): decided here only for / % /= %=',
                            'bool objects in input states hold 0 or 1 (type invariant stated as a precondition)'],
            'coverage_extra': {'overloads_under_contract': overloads, 'families': ['xoptional', 'xmasked_value'],
                               'not_reached': ['xoptional/xmasked_value stream and JSON helpers', 'mixed xoptional x xmasked_value operands', 'operand types other than int/double']}}


def replay(ctx, job, ob, steps, base):
    """rebuild the operands of the verifier's counterexample with the real headers, apply the same overload, compare with the
    stated semantics (presence = AND of presences; value = the operation on the underlying values; target untouched when missing)"""
    from xv.driver import TraceView
    tv = TraceView(steps)
    info = None
    for u in ctx['units']:
        if job.enforce in getattr(u, 'gen_info', {}):
            info = u.gen_info[job.enforce]
            fam = 'xoptional' if u.name == 'opt' else 'xmasked_value'
    if info is None or info['name'] in MATH1 + MATHB + MATH2 + MATH3 + ['select', 'value_or']:
        return None
    name = info['name']
    ops = []
    for nm, kd in info['operands']:
        o = tv.obj_of(nm)
        if kd == 'opt':
            v = tv.field(o, 'm_value', 0)
            fl = tv.field(o, 'm_flag', tv.field(o, 'm_visible', 0))
            if v is None:
                v = 0
            ops.append(('opt', int(v or 0), 1 if fl else 0))
        else:
            v = tv.num('%s' % o, None) if o else None
            ops.append(('scalar', int(v or 0), 1))
    T = 'xtl::%s<int>' % fam
    decl, args = [], []
    for i, (kd, v, fl) in enumerate(ops):
        if kd == 'opt':
            decl.append('%s x%d(%d, %s);' % (T, i, v, 'true' if fl else 'false'))
        else:
            decl.append('int x%d = %d;' % (i, v))
        args.append('x%d' % i)
    present = ' && '.join('P(x%d)' % i for i, (kd, v, fl) in enumerate(ops) if kd == 'opt') or 'true'
    op = name[len('operator'):]
    if name in ASG or name == 'operator=':
        body = 'int before = V(x0); bool pb = P(x0); x0 %s x1; bool pe = pb && %s; if (P(x0) != pe) BAD("presence of the target"); ' \
               'if (pe) { int e = before; e %s V(x1); if (V(x0) != e) BAD("value of the target"); } else if (V(x0) != before) BAD("a missing result altered the target value");' % (
                   op, 'P(x1)' if ops[1][0] == 'opt' else 'true', op)
    elif name in CMP:
        f = [('P(x%d)' % i) if k == 'opt' else 'true' for i, (k, v, fl) in enumerate(ops)]
        body = 'bool r = (x0 %s x1); bool eq = (!%s && !%s) || (%s && %s && V(x0) == V(x1)); if (r != (%seq)) BAD("result of the comparison");' % (op, f[0], f[1], f[0], f[1], '!' if op == '!=' else '')
        if ops[0][0] != 'opt' or ops[1][0] != 'opt':
            body = 'bool r = (x0 %s x1); bool eq = (%s) && V(x0) == V(x1); if (r != (%seq)) BAD("result of the comparison");' % (op, present, '!' if op == '!=' else '')
    elif len(ops) == 2:
        body = 'auto r = x0 %s x1; bool pe = %s; if (P(r) != pe) BAD("presence of the result"); if (pe && V(r) != (V(x0) %s V(x1))) BAD("value of the result");' % (op, present, op)
    else:
        body = 'auto r = %sx0; bool pe = %s; if (P(r) != pe) BAD("presence of the result"); if (pe && V(r) != (%sV(x0))) BAD("value of the result");' % (op, present, op)
    guard = ''
    if op in ('/', '%', '/=', '%=') and len(ops) == 2:
        guard = 'if (P(x1) && V(x1) == 0) return 2;   /* present zero divisor: outside the precondition */\n  '
    prog = '''#include <xtl/%s.hpp>
#include <cstdio>
#include <csignal>
#include <cstdlib>
static int bad = 0;
#define BAD(what) { std::printf("%s %s: %%s differs from the stated semantics\\n", what); bad = 1; }
template <class X> bool P(const X& x) { return bool(x.%s()); }
bool P(const int&) { return true; }
template <class X> auto V(const X& x) { return x.value(); }
int V(const int& x) { return x; }
static void trap(int) { std::printf("SIGFPE: the operation was evaluated on a missing operand (integer division by zero)\\n"); std::_Exit(1); }
int main() {
  std::signal(SIGFPE, trap);
  %s
  %s%s
  std::printf("operands: %s\\n");
  return bad;
}
''' % (fam, fam, name, 'has_value' if fam == 'xoptional' else 'visible', '\n  '.join(decl), guard, body,
       ', '.join('%s(value %d, %s)' % (k, v, 'present' if fl else 'missing') for k, v, fl in ops))
    rc, out = native_run(prog, base)
    return (rc == 1, (out or '')[-1500:] + '\nprogram: %s.cpp' % base)
