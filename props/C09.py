"""C09 (the part within reach): half functions that must agree exactly with the float functions / step to the adjacent value."""
import os, re
from xv.unit import Unit
from xv.driver import Job, VERIF
from xv.prop import native_run

PROP = 'C09'
INST = r'''
#include <xtl/xhalf_float.hpp>
using half_float::half;
half (*r1)(half) = &half_float::ceil;
half (*r2)(half) = &half_float::floor;
half (*r3)(half) = &half_float::trunc;
half (*r4)(half) = &half_float::round;
half (*r5)(half) = &half_float::rint;
half (*r6)(half) = &half_float::nearbyint;
long (*r7)(half) = &half_float::lround;
long (*r8)(half) = &half_float::lrint;
half (*e1)(half, int*) = &half_float::frexp;
half (*e2)(half, long) = &half_float::scalbln;
half (*e3)(half, int) = &half_float::scalbn;
half (*e4)(half, int) = &half_float::ldexp;
half (*e5)(half, half*) = &half_float::modf;
int (*e6)(half) = &half_float::ilogb;
half (*e7)(half) = &half_float::logb;
half (*n1)(half, half) = &half_float::nextafter;
half (*n2)(half, half) = &half_float::fdim;
half (*n3)(half, half) = &half_float::fmax;
half (*n4)(half, half) = &half_float::fmin;
'''
NAMES = ('ceil', 'floor', 'trunc', 'round', 'rint', 'nearbyint', 'lround', 'lrint', 'frexp', 'scalbln', 'scalbn', 'ldexp', 'modf', 'ilogb', 'logb', 'nextafter', 'fdim', 'fmax', 'fmin')


def select(fn, q, lw):
    return q.startswith('half_float::') and q.count('::') == 1 and fn.get('name') in NAMES and 'half_float::half' in fn['type']['qualType']


def build(tier, workdir, seed):
    ctext = open(os.path.join(VERIF, 'contracts', 'C08_half.h')).read() + open(os.path.join(VERIF, 'contracts', 'C09_hmath.h')).read()
    u = Unit('hmath', INST, select, ctext, [(r'half_float::half', 'half')], partial=True, prelude=('xv_std.h', 'xv_fp.h'), ghost_init='  (void)xv_use_libm();\n',
             extra_c='/* references that make goto-instrument --add-library link the C library models the CONTRACTS call */\nfloat nondet_xv_float(void);\nfloat xv_use_libm(void) { float x = nondet_xv_float(); return ceilf(x) + floorf(x) + truncf(x) + roundf(x) + nearbyintf(x) + (float)lroundf(x) + (float)lrintf(x); }\n').lower(workdir)
    al = [c for c in u.contracts if c in u.lw.loops and any(c == 'half_float__%s__' % n + s for n in NAMES for s in ('half', 'half_half', 'half_pi', 'half_l', 'half_i', 'half_phalf'))]
    jobs = u.contract_jobs(PROP, aliases=al, timeout=900, pre_unwind=20)
    for j in jobs:
        j.add_library = True
    return {'jobs': jobs, 'units': [u], 'trusted_base': sorted(u.std.used) + ['clang 14 AST; xtl2c lowering rules (DESIGN.md 3.2)',
                'CBMC C library models of ceilf / floorf / truncf / roundf / nearbyintf / lroundf / lrintf (linked with goto-instrument --add-library) as the float reference functions',
                'contracts/C08_half.h spec functions (exact value of a half, IEEE conversion float -> half, correctly rounded add/sub) - shared with C08'],
            'assumptions': ['PARTIAL CLAIM: only the functions the property requires to agree EXACTLY with the float functions / to step to the adjacent value are decided '
                            '(ceil floor trunc round rint nearbyint lround lrint frexp ldexp scalbn scalbln modf ilogb logb nextafter fdim fmax fmin); '
                            'the correctly-rounded and 1-ULP transcendental functions (exp, log, sin, pow, erf, tgamma, ...) have no specification a contract can state (no real-valued reference in the verifier) and are listed under not_reached',
                            'all 2^16 arguments (all 2^32 pairs for the binary functions, every long / int exponent for scalbln / scalbn / ldexp): full-domain symbolic inputs',
                            'default rounding mode (round to nearest even); floating-point exception flags are not modelled (raise() is lowered to nothing observable)',
                            'normalisation loops (at most 10 steps) are unwound 20 times with unwinding assertions: width-bounded, complete'],
            'coverage_extra': {'not_reached': ['exp exp2 expm1 log log10 log2 log1p cbrt hypot pow sin cos tan sincos asin acos atan atan2 sinh cosh tanh asinh acosh atanh erf erfc lgamma tgamma',
                                               'fmod remainder remquo', 'llround llrint nexttoward', 'rounding modes other than to-nearest; exception flags']}}


REPLAY = r"""
// C09 replay: all 2^16 arguments (all exponents in a window and the extremes for scalbln) of the exactly-specified half functions
// against the float functions of libm.  Exit 1 = mismatch (printed).
#include <xtl/xhalf_float.hpp>
#include <cmath>
#include <cstdio>
#include <cstring>
#include <climits>
using half_float::half;
static half hb(unsigned b) { half h; unsigned short s = (unsigned short)b; std::memcpy(&h, &s, 2); return h; }
static unsigned bh(half h) { unsigned short s; std::memcpy(&s, &h, 2); return s; }
static bool same(half a, float f) { half r(f); if (std::isnan(f)) return half_float::isnan(a); return bh(a) == bh(r); }
#define BAD(name, b) do { std::printf("%s(half with bits 0x%04x = %g) disagrees with the float function\n", name, (b), (double)(float)hb(b)); return 1; } while (0)
int main() {
  for (unsigned b = 0; b < 0x10000; ++b) { half h = hb(b); float f = (float)h;
    if (!same(half_float::ceil(h), std::ceil(f))) BAD("ceil", b);
    if (!same(half_float::floor(h), std::floor(f))) BAD("floor", b);
    if (!same(half_float::trunc(h), std::trunc(f))) BAD("trunc", b);
    if (!same(half_float::round(h), std::round(f))) BAD("round", b);
    if (!same(half_float::rint(h), std::nearbyint(f))) BAD("rint", b);
    if (!same(half_float::nearbyint(h), std::nearbyint(f))) BAD("nearbyint", b);
    if (std::isfinite(f)) { if (half_float::lround(h) != std::lround(f)) BAD("lround", b); if (half_float::lrint(h) != std::lrint(f)) BAD("lrint", b); }
    if (std::isfinite(f) && f != 0) { if (half_float::ilogb(h) != std::ilogb(f)) BAD("ilogb", b); if (!same(half_float::logb(h), std::logb(f))) BAD("logb", b);
      int e1, e2; half m = half_float::frexp(h, &e1); float mf = std::frexp(f, &e2); if (e1 != e2 || !same(m, mf)) BAD("frexp", b); }
    { half ip; half fr = half_float::modf(h, &ip); float ipf; float frf = std::modf(f, &ipf); if (!std::isnan(f) && (!same(ip, ipf) || !same(fr, frf))) BAD("modf", b); }
    long es[] = {-40, -26, -25, -24, -15, -11, -10, -9, -1, 0, 1, 9, 10, 15, 16, 30, 31, 40, 64, 65, 100000, -100000, LONG_MAX, LONG_MIN, LONG_MIN + 5, LONG_MAX - 3};
    for (long e : es) { long ec = e > 100 ? 100 : e < -100 ? -100 : e; if (!same(half_float::scalbln(h, e), std::scalbn(f, (int)ec))) { std::printf("scalbln(bits 0x%04x = %g, %ld) = %g, expected %g\n", b, (double)f, e, (double)(float)half_float::scalbln(h, e), (double)(float)half(std::scalbn(f, (int)ec))); return 1; }
      if (e >= INT_MIN && e <= INT_MAX && (!same(half_float::ldexp(h, (int)e), std::scalbn(f, (int)ec)) || !same(half_float::scalbn(h, (int)e), std::scalbn(f, (int)ec)))) BAD("ldexp/scalbn", b); } }
  for (unsigned a = 0; a < 0x10000; a += 7) for (unsigned b = 0; b < 0x10000; b += 251) { half x = hb(a), y = hb(b); float fx = (float)x, fy = (float)y;
    if (!std::isnan(fx) && !std::isnan(fy)) { half n = half_float::nextafter(x, y); float nf = (float)n;
      if (fx == fy) { if (bh(n) != bh(y)) BAD("nextafter(equal)", a); } else if (!((fx < fy) ? (nf > fx && !(half_float::nextafter(n, x) != x && fx != 0)) : (nf < fx))) BAD("nextafter", a);
      if (!same(half_float::fdim(x, y), fx <= fy ? 0.0f : (float)(x - y))) BAD("fdim", a);
      if ((float)half_float::fmax(x, y) != std::fmax(fx, fy) || (float)half_float::fmin(x, y) != std::fmin(fx, fy)) BAD("fmax/fmin", a); } }
  return 0; }
"""


def replay(ctx, job, ob, steps, base):
    rc, out = native_run(REPLAY, base, extra=['-O1'], timeout=300)
    return (rc not in (0, None), (out or '')[-2000:] + '\nprogram: %s.cpp' % base)
