"""Generator of the C01/C02 contract header for one xbasic_fixed_string configuration (capacity N, layout, throwing policy).

Abstract view of a string s: len = LEN(s), chr[g] = BUF(s)[g] for g < len, and the terminator BUF(s)[len] == 0.
wf: len <= N and the layout's encoding equation (packed: last element == N - len, which doubles as the terminator when
len == N; size field: m_size == len; strlen layout: len = position of the first NUL, which exists inside the N+1 buffer).
xv_g is an arbitrary character index in 0..N (so statements about BUF[xv_g] cover the WHOLE N+1 buffer, not only the part
below len): "unchanged after a throw" is BUF[xv_g] == old(BUF[xv_g]) plus the unchanged length field.
std::basic_string is the oracle: postconditions are its specification written over (len, chr)."""


import re


def generate(N, layout):
    o = []
    A = o.append
    B = 'self->m_storage.m_buffer'
    A('/* xbasic_fixed_string<char, %d>, %s layout, throwing policy */' % (N, layout))
    A('#define FS_N %dul' % N)
    A('#define BUF(s) ((s)->m_storage.m_buffer)')
    A('#define UC(c) ((unsigned long)(unsigned char)(c))')
    if layout == 'packed':
        A('#define LEN(s) (FS_N - UC(BUF(s)[FS_N]))')
        A('#define OLDLEN(s) (FS_N - UC(__CPROVER_old(BUF(s)[FS_N])))')
        A('#define WF(s) (UC(BUF(s)[FS_N]) <= FS_N && BUF(s)[LEN(s)] == 0)')
        A('#define SAME_LEN_FIELD(s) 1')
    elif layout == 'sizefield':
        A('#define LEN(s) ((s)->m_storage.m_size)')
        A('#define OLDLEN(s) (__CPROVER_old((s)->m_storage.m_size))')
        A('#define WF(s) (LEN(s) <= FS_N && BUF(s)[LEN(s)] == 0)')
        A('#define SAME_LEN_FIELD(s) ((s)->m_storage.m_size == __CPROVER_old((s)->m_storage.m_size))')
    elif layout == 'strlen':
        # numpy-style layout: no stored size, size() == strlen(buffer); only generated for small N (explicit position chains)
        assert N <= 16
        chain = lambda f: ''.join('%s == 0 ? %dul : ' % (f(k), k) for k in range(N + 1)) + '%dul' % (N + 1)
        A('#define ZLEN(b) (%s)' % chain(lambda k: '(b)[%d]' % k))
        A('#define ZOLDLEN(b) (%s)' % chain(lambda k: '__CPROVER_old((b)[%d])' % k))
        A('#define LEN(s) ZLEN(BUF(s))')
        A('#define OLDLEN(s) ZOLDLEN(BUF(s))')
        A('#define WF(s) (LEN(s) <= FS_N)')
        A('#define SAME_LEN_FIELD(s) 1')
        # characters written into a strlen-sized string must not be NUL (the layout cannot represent them)
        A('#define NZ(p, n) (%s)' % ' && '.join('((n) <= %dul || (p)[%d] != 0)' % (k, k) for k in range(N)))
    else:
        raise Exception('layout not generated: ' + layout)
    A('#define OBJ(s) __CPROVER_is_fresh(s, sizeof(*(s)))')
    A('#define VALID(s) (OBJ(s) && WF(s))')
    A('#define GIDX __CPROVER_requires(xv_g <= FS_N)')
    A('#define OLDCH(s) __CPROVER_old(BUF(s)[xv_g])')
    A('/* nothing changed: every element of the N+1 buffer and the length field */')
    A('#define UNCHANGED(s) (BUF(s)[xv_g] == OLDCH(s) && SAME_LEN_FIELD(s))')
    A('#define LENERR XV_EXC_length_error')
    A('#define RANGEERR XV_EXC_out_of_range')
    A('#define RV __CPROVER_return_value')
    A('#define FRAME __CPROVER_assigns(xv_exc, *self)')
    A('#define ENTRY __CPROVER_requires(VALID(self) && xv_exc == 0) GIDX')
    A('/* failure => the given exception and nothing changed; success => wf */')
    A('#define ON_THROW __CPROVER_ensures(xv_exc != 0 ==> UNCHANGED(self)) __CPROVER_ensures(xv_exc == 0 ==> WF(self))')

    def C(name, clauses):
        if layout == 'strlen' and name.startswith('fs__'):
            text = ' '.join(clauses)
            extra = []
            if re.search(r'\bch\b', text):
                extra.append('__CPROVER_requires(ch != 0)')
            for (pp, nn) in (('s', 'count'), ('cstr', 'count2')):
                if 'is_fresh(%s, %s)' % (pp, nn) in text:
                    extra.append('__CPROVER_requires(%s > FS_N || NZ(%s, %s))' % (nn, pp, nn))
            clauses = [clauses[0]] + extra + list(clauses[1:])
        A('#define XV_CONTRACT_%s \\\n  %s' % (name, ' \\\n  '.join(clauses)))

    # ---- storage class
    S = 'self->m_buffer'
    if layout == 'packed':
        SL, SWF = '(FS_N - UC(%s[FS_N]))' % S, '(UC(%s[FS_N]) <= FS_N)' % S
        C('sto__size__v_c', ['__CPROVER_requires(OBJ(self) && %s)' % SWF, '__CPROVER_ensures(RV == %s)' % SL, '__CPROVER_assigns()'])
        C('sto__set_size__ul', ['__CPROVER_requires(OBJ(self) && sz <= FS_N) GIDX',
                                '__CPROVER_ensures(%s == sz && %s[sz] == 0)' % (SL, S),
                                '__CPROVER_ensures((xv_g != sz && xv_g != FS_N) ==> %s[xv_g] == __CPROVER_old(%s[xv_g]))' % (S, S), '__CPROVER_assigns(*self)'])
        C('sto__adjust_size__l', ['__CPROVER_requires(OBJ(self) && %s && (val >= 0 ? %s + (unsigned long)val <= FS_N : (unsigned long)(-val) <= %s)) GIDX' % (SWF, SL, SL),
                                  '__CPROVER_ensures(%s == (unsigned long)((long)(FS_N - UC(__CPROVER_old(%s[FS_N]))) + val) && %s[%s] == 0)' % (SL, S, S, SL),
                                  '__CPROVER_ensures((xv_g != %s && xv_g != FS_N) ==> %s[xv_g] == __CPROVER_old(%s[xv_g]))' % (SL, S, S), '__CPROVER_assigns(*self)'])
    elif layout == 'strlen':
        SL = 'ZLEN(%s)' % S
        C('sto__size__v_c', ['__CPROVER_requires(OBJ(self) && %s <= FS_N)' % SL, '__CPROVER_ensures(RV == %s)' % SL, '__CPROVER_assigns()'])
        C('sto__set_size__ul', ['__CPROVER_requires(OBJ(self) && sz <= FS_N) GIDX', '__CPROVER_ensures(%s[sz] == 0)' % S,
                                '__CPROVER_ensures(xv_g != sz ==> %s[xv_g] == __CPROVER_old(%s[xv_g]))' % (S, S), '__CPROVER_assigns(*self)'])
        C('sto__adjust_size__l', ['__CPROVER_requires(OBJ(self) && %s <= FS_N && (val >= 0 ? %s + (unsigned long)val <= FS_N : (unsigned long)(-val) <= %s)) GIDX' % (SL, SL, SL),
                                  '__CPROVER_ensures(%s[(unsigned long)((long)ZOLDLEN(%s) + val)] == 0)' % (S, S),
                                  '__CPROVER_ensures(xv_g != (unsigned long)((long)ZOLDLEN(%s) + val) ==> %s[xv_g] == __CPROVER_old(%s[xv_g]))' % (S, S, S), '__CPROVER_assigns(*self)'])
    else:
        SL = 'self->m_size'
        C('sto__size__v_c', ['__CPROVER_requires(OBJ(self))', '__CPROVER_ensures(RV == %s)' % SL, '__CPROVER_assigns()'])
        C('sto__set_size__ul', ['__CPROVER_requires(OBJ(self) && sz <= FS_N) GIDX',
                                '__CPROVER_ensures(%s == sz && %s[sz] == 0)' % (SL, S),
                                '__CPROVER_ensures(xv_g != sz ==> %s[xv_g] == __CPROVER_old(%s[xv_g]))' % (S, S), '__CPROVER_assigns(*self)'])
        C('sto__adjust_size__l', ['__CPROVER_requires(OBJ(self) && %s <= FS_N && (val >= 0 ? %s + (unsigned long)val <= FS_N : (unsigned long)(-val) <= %s)) GIDX' % (SL, SL, SL),
                                  '__CPROVER_ensures(%s == (unsigned long)((long)__CPROVER_old(%s) + val) && %s[%s] == 0)' % (SL, SL, S, SL),
                                  '__CPROVER_ensures(xv_g != %s ==> %s[xv_g] == __CPROVER_old(%s[xv_g]))' % (SL, S, S), '__CPROVER_assigns(*self)'])
    # ---- error policy (the alias of the policy class is `pol`)
    C('pol__check_size__ul', ['__CPROVER_requires(xv_exc == 0)', '__CPROVER_ensures((xv_exc == LENERR) == (size > FS_N)) __CPROVER_ensures(xv_exc == 0 || xv_exc == LENERR)',
                              '__CPROVER_ensures(xv_exc == 0 ==> RV == size)', '__CPROVER_assigns(xv_exc)'])
    C('pol__check_add__ul_ul', ['__CPROVER_requires(xv_exc == 0 && size1 <= FS_N)', '/* size1 + size2 must not overflow size_t (stated in the property) */',
                                '__CPROVER_requires(size2 <= (unsigned long)-1 - size1)',
                                '__CPROVER_ensures((xv_exc == LENERR) == (size1 + size2 > FS_N)) __CPROVER_ensures(xv_exc == 0 || xv_exc == LENERR)',
                                '__CPROVER_ensures(xv_exc == 0 ==> RV == size1 + size2)', '__CPROVER_assigns(xv_exc)'])
    # ---- observers
    for nm in ('size__v_c', 'length__v_c'):
        C('fs__' + nm, ['__CPROVER_requires(VALID(self))', '__CPROVER_ensures(RV == LEN(self))', '__CPROVER_assigns()'])
    C('fs__empty__v_c', ['__CPROVER_requires(VALID(self))', '__CPROVER_ensures(RV == (LEN(self) == 0))', '__CPROVER_assigns()'])
    C('fs__max_size__v_c', ['__CPROVER_requires(VALID(self))', '__CPROVER_ensures(RV == FS_N)', '__CPROVER_assigns()'])
    for nm in ('data__v', 'data__v_c', 'c_str__v_c', 'begin__v', 'begin__v_c', 'cbegin__v_c'):
        C('fs__' + nm, ['__CPROVER_requires(VALID(self))', '__CPROVER_ensures(RV == &BUF(self)[0])', '__CPROVER_assigns()'])
    for nm in ('end__v', 'end__v_c', 'cend__v_c'):
        C('fs__' + nm, ['__CPROVER_requires(VALID(self))', '__CPROVER_ensures(RV == &BUF(self)[0] + LEN(self))', '__CPROVER_assigns()'])
    for nm in ('op_index__ul', 'op_index__ul_c'):
        C('fs__' + nm, ['__CPROVER_requires(VALID(self) && pos <= LEN(self))', '__CPROVER_ensures(RV == &BUF(self)[pos])', '__CPROVER_assigns()'])
    for nm in ('at__ul', 'at__ul_c'):
        C('fs__' + nm, ['__CPROVER_requires(VALID(self) && xv_exc == 0)',
                        '__CPROVER_ensures((xv_exc == RANGEERR) == (pos >= LEN(self))) __CPROVER_ensures(xv_exc == 0 || xv_exc == RANGEERR)',
                        '__CPROVER_ensures(xv_exc == 0 ==> RV == &BUF(self)[pos])', '__CPROVER_assigns(xv_exc)'])
    for nm, idx in (('front__v', '0'), ('front__v_c', '0'), ('back__v', '(LEN(self) - 1)'), ('back__v_c', '(LEN(self) - 1)')):
        C('fs__' + nm, ['__CPROVER_requires(VALID(self) && LEN(self) > 0)', '__CPROVER_ensures(RV == &BUF(self)[%s])' % idx, '__CPROVER_assigns()'])
    # ---- modifiers (std::basic_string specification over (len, chr))
    C('fs__clear__v', ['ENTRY', '__CPROVER_ensures(LEN(self) == 0 && WF(self) && xv_exc == 0)', 'FRAME'])
    C('fs__assign__ul_c', ['ENTRY', '__CPROVER_ensures((xv_exc == LENERR) == (count > FS_N)) __CPROVER_ensures(xv_exc == 0 || xv_exc == LENERR) ON_THROW',
                           '__CPROVER_ensures(xv_exc == 0 ==> (LEN(self) == count && (xv_g < count ==> BUF(self)[xv_g] == ch) && RV == self))', 'FRAME'])
    C('fs__assign__pc_ul', ['ENTRY __CPROVER_requires(count <= 4 * FS_N && __CPROVER_is_fresh(s, count))',
                            '__CPROVER_ensures((xv_exc == LENERR) == (count > FS_N)) __CPROVER_ensures(xv_exc == 0 || xv_exc == LENERR) ON_THROW',
                            '__CPROVER_ensures(xv_exc == 0 ==> (LEN(self) == count && (xv_g < count ==> BUF(self)[xv_g] == s[xv_g]) && RV == self))', 'FRAME'])
    C('fs__push_back__c', ['ENTRY', '__CPROVER_ensures((xv_exc == LENERR) == (OLDLEN(self) == FS_N)) __CPROVER_ensures(xv_exc == 0 || xv_exc == LENERR) ON_THROW',
                           '__CPROVER_ensures(xv_exc == 0 ==> (LEN(self) == OLDLEN(self) + 1 && BUF(self)[OLDLEN(self)] == ch && (xv_g < OLDLEN(self) ==> BUF(self)[xv_g] == OLDCH(self))))', 'FRAME'])
    C('fs__pop_back__v', ['ENTRY __CPROVER_requires(LEN(self) > 0)',
                          '__CPROVER_ensures(xv_exc == 0 && WF(self) && LEN(self) == OLDLEN(self) - 1 && (xv_g < LEN(self) ==> BUF(self)[xv_g] == OLDCH(self)))', 'FRAME'])
    C('fs__append__pc_ul', ['ENTRY __CPROVER_requires(count <= 4 * FS_N && __CPROVER_is_fresh(s, count))',
                            '__CPROVER_requires((xv_g >= LEN(self) && xv_g - LEN(self) < count) ==> xv_a1 == UC(s[xv_g - LEN(self)]))',
                            '__CPROVER_ensures((xv_exc == LENERR) == (OLDLEN(self) + count > FS_N)) __CPROVER_ensures(xv_exc == 0 || xv_exc == LENERR) ON_THROW',
                            '__CPROVER_ensures(xv_exc == 0 ==> (LEN(self) == OLDLEN(self) + count && RV == self))',
                            '__CPROVER_ensures((xv_exc == 0 && xv_g < LEN(self)) ==> UC(BUF(self)[xv_g]) == (xv_g < OLDLEN(self) ? UC(OLDCH(self)) : xv_a1))', 'FRAME'])
    C('fs__append__ul_c', ['ENTRY __CPROVER_requires(count <= 4 * FS_N)',
                           '__CPROVER_ensures((xv_exc == LENERR) == (OLDLEN(self) + count > FS_N)) __CPROVER_ensures(xv_exc == 0 || xv_exc == LENERR) ON_THROW',
                           '__CPROVER_ensures(xv_exc == 0 ==> (LEN(self) == OLDLEN(self) + count && RV == self))',
                           '__CPROVER_ensures((xv_exc == 0 && xv_g < LEN(self)) ==> BUF(self)[xv_g] == (xv_g < OLDLEN(self) ? OLDCH(self) : ch))', 'FRAME'])
    C('fs__resize__ul_c', ['ENTRY', '__CPROVER_ensures((xv_exc == LENERR) == (count > FS_N)) __CPROVER_ensures(xv_exc == 0 || xv_exc == LENERR) ON_THROW',
                           '__CPROVER_ensures(xv_exc == 0 ==> LEN(self) == count)',
                           '__CPROVER_ensures((xv_exc == 0 && xv_g < count) ==> BUF(self)[xv_g] == (xv_g < OLDLEN(self) ? OLDCH(self) : ch))', 'FRAME'])
    # insert(index, s, count):  chr' = chr[0,index) ++ s[0,count) ++ chr[index,len)
    C('fs__insert__ul_pc_ul', ['ENTRY __CPROVER_requires(count <= 4 * FS_N && __CPROVER_is_fresh(s, count))',
                               '__CPROVER_requires((xv_g >= index && xv_g - index < count) ==> xv_a1 == UC(s[xv_g - index]))',
                               '__CPROVER_requires((xv_g >= count && xv_g - count <= FS_N) ==> xv_a2 == UC(BUF(self)[xv_g - count]))',
                               '__CPROVER_ensures((xv_exc == RANGEERR) == (index > OLDLEN(self)))',
                               '__CPROVER_ensures((xv_exc == LENERR) == (index <= OLDLEN(self) && OLDLEN(self) + count > FS_N)) ON_THROW',
                               '__CPROVER_ensures(xv_exc == 0 ==> (LEN(self) == OLDLEN(self) + count && RV == self))',
                               '__CPROVER_ensures((xv_exc == 0 && xv_g < LEN(self)) ==> UC(BUF(self)[xv_g]) == (xv_g < index ? UC(OLDCH(self)) : xv_g < index + count ? xv_a1 : xv_a2))', 'FRAME'])
    # insert(index, count, ch)
    C('fs__insert__ul_ul_c', ['ENTRY __CPROVER_requires(count <= 4 * FS_N)',
                              '__CPROVER_requires((xv_g >= count && xv_g - count <= FS_N) ==> xv_a2 == UC(BUF(self)[xv_g - count]))',
                              '__CPROVER_ensures((xv_exc == RANGEERR) == (index > OLDLEN(self)))',
                              '__CPROVER_ensures((xv_exc == LENERR) == (index <= OLDLEN(self) && OLDLEN(self) + count > FS_N)) ON_THROW',
                              '__CPROVER_ensures(xv_exc == 0 ==> (LEN(self) == OLDLEN(self) + count && RV == self))',
                              '__CPROVER_ensures((xv_exc == 0 && xv_g < LEN(self)) ==> UC(BUF(self)[xv_g]) == (xv_g < index ? UC(OLDCH(self)) : xv_g < index + count ? UC(ch) : xv_a2))', 'FRAME'])
    # erase(index, count): removes min(count, len - index) characters starting at index
    A('#define ERASED (count < OLDLEN(self) - index ? count : OLDLEN(self) - index)')
    A('#define ERASED_PRE (count < LEN(self) - index ? count : LEN(self) - index)')
    C('fs__erase__ul_ul', ['ENTRY',
                           '__CPROVER_requires((index <= LEN(self) && xv_g + ERASED_PRE <= FS_N) ==> xv_a2 == UC(BUF(self)[xv_g + ERASED_PRE]))',
                           '__CPROVER_ensures((xv_exc == RANGEERR) == (index > OLDLEN(self))) __CPROVER_ensures(xv_exc == 0 || xv_exc == RANGEERR) ON_THROW',
                           '__CPROVER_ensures(xv_exc == 0 ==> (LEN(self) == OLDLEN(self) - ERASED && RV == self))',
                           '__CPROVER_ensures((xv_exc == 0 && xv_g < LEN(self)) ==> UC(BUF(self)[xv_g]) == (xv_g < index ? UC(OLDCH(self)) : xv_a2))', 'FRAME'])
    # replace(pos, count, s, count2): chr' = chr[0,pos) ++ s[0,count2) ++ chr[pos+c, len), c = min(count, len - pos)
    A('#define REPL_C (count < LEN(self) - pos ? count : LEN(self) - pos)')
    A('#define REPL_CO (count < OLDLEN(self) - pos ? count : OLDLEN(self) - pos)')
    C('fs__replace__ul_ul_pc_ul', ['ENTRY __CPROVER_requires(count2 <= 4 * FS_N && __CPROVER_is_fresh(cstr, count2))',
                                   '__CPROVER_requires((xv_g >= pos && xv_g - pos < count2) ==> xv_a1 == UC(cstr[xv_g - pos]))',
                                   '__CPROVER_requires((pos <= LEN(self) && xv_g + REPL_C >= count2 && xv_g + REPL_C - count2 <= FS_N) ==> xv_a2 == UC(BUF(self)[xv_g + REPL_C - count2]))',
                                   '__CPROVER_ensures((xv_exc == RANGEERR) == (pos > OLDLEN(self)))',
                                   '__CPROVER_ensures((xv_exc == LENERR) == (pos <= OLDLEN(self) && OLDLEN(self) - REPL_CO + count2 > FS_N)) ON_THROW',
                                   '__CPROVER_ensures(xv_exc == 0 ==> (LEN(self) == OLDLEN(self) - REPL_CO + count2 && RV == self))',
                                   '__CPROVER_ensures((xv_exc == 0 && xv_g < LEN(self)) ==> UC(BUF(self)[xv_g]) == (xv_g < pos ? UC(OLDCH(self)) : xv_g < pos + count2 ? xv_a1 : xv_a2))', 'FRAME'])
    # copy(dest, count, pos): copies min(count, len - pos) characters out, the string is unchanged
    C('fs__copy__pc_ul_ul_c', ['__CPROVER_requires(VALID(self) && xv_exc == 0 && xv_n <= 4 * FS_N && __CPROVER_is_fresh(dest, xv_n))',
                               '__CPROVER_requires((count < FS_N ? count : FS_N) <= xv_n && xv_g <= 4 * FS_N)',
                               '__CPROVER_requires((pos <= LEN(self) && xv_g + pos <= FS_N) ==> xv_a1 == UC(BUF(self)[xv_g + pos]))',
                               '__CPROVER_ensures((xv_exc == RANGEERR) == (pos > LEN(self))) __CPROVER_ensures(xv_exc == 0 || xv_exc == RANGEERR)',
                               '__CPROVER_ensures(xv_exc == 0 ==> RV == (count < LEN(self) - pos ? count : LEN(self) - pos))',
                               '__CPROVER_ensures((xv_exc == 0 && xv_g < RV) ==> UC(dest[xv_g]) == xv_a1)',
                               '__CPROVER_assigns(xv_exc, __CPROVER_object_whole(dest))'])
    # compare_impl: sign of the first differing character (unsigned char order) or of the length difference; witness xv_m
    C('fs__compare_impl__pc_ul_pc_ul_c', ['__CPROVER_requires(OBJ(self) && count1 <= 4 * FS_N && count2 <= 4 * FS_N && __CPROVER_is_fresh(s1, count1) && __CPROVER_is_fresh(s2, count2))',
                                          '__CPROVER_requires(xv_k <= 4 * FS_N)',
                                          '__CPROVER_ensures(xv_m <= (count1 < count2 ? count1 : count2))',
                                          '__CPROVER_ensures(xv_k < xv_m ==> s1[xv_k] == s2[xv_k])',
                                          '__CPROVER_ensures(xv_m < (count1 < count2 ? count1 : count2) ==> (s1[xv_m] != s2[xv_m] && (RV < 0) == (UC(s1[xv_m]) < UC(s2[xv_m])) && RV != 0))',
                                          '__CPROVER_ensures(xv_m == (count1 < count2 ? count1 : count2) ==> ((RV < 0) == (count1 < count2) && (RV > 0) == (count1 > count2)))',
                                          '__CPROVER_assigns(xv_m)'])
    # compare(pos1, count1, str, pos2, count2): out_of_range exactly when a position exceeds ITS OWN string's length; otherwise the sign
    # of comparing the two clamped substrings (witness xv_m = first differing index, xv_k ghost index below it)
    A('#define C1 (count1 < LEN(self) - pos1 ? count1 : LEN(self) - pos1)')
    A('#define C2 (count2 < LEN(str) - pos2 ? count2 : LEN(str) - pos2)')
    A('#define CMIN (C1 < C2 ? C1 : C2)')
    C('fs__compare__ul_ul_rfs_ul_ul_c', ['__CPROVER_requires(VALID(self) && OBJ(str) && WF(str) && xv_exc == 0 && xv_k <= FS_N)',
                                         '__CPROVER_ensures((xv_exc == RANGEERR) == (pos1 > LEN(self) || pos2 > LEN(str))) __CPROVER_ensures(xv_exc == 0 || xv_exc == RANGEERR)',
                                         '__CPROVER_ensures(xv_exc == 0 ==> xv_m <= CMIN)',
                                         '__CPROVER_ensures((xv_exc == 0 && xv_k < xv_m) ==> BUF(self)[pos1 + xv_k] == BUF(str)[pos2 + xv_k])',
                                         '__CPROVER_ensures((xv_exc == 0 && xv_m < CMIN) ==> (RV != 0 && (RV < 0) == (UC(BUF(self)[pos1 + xv_m]) < UC(BUF(str)[pos2 + xv_m]))))',
                                         '__CPROVER_ensures((xv_exc == 0 && xv_m == CMIN) ==> ((RV < 0) == (C1 < C2) && (RV > 0) == (C1 > C2)))',
                                         '__CPROVER_assigns(xv_exc, xv_m)'])
    return '\n'.join(o) + '\n'


CSTR_ALIASES = ('fs__assign__pc', 'fs__op_assign__pc', 'fs__append__pc', 'fs__op_add_assign__pc', 'fs__insert__ul_pc', 'fs__replace__ul_ul_pc', 'fs__compare__pc_c', 'fs__compare__ul_ul_pc_c')


def search_contracts(N):
    """capacity-bounded (N <= 8) specification of the search family, std::basic_string semantics, with the quantifiers over
    positions and characters written out (loop-free).  s is the needle (count characters, exactly that many readable)."""
    assert N <= 8
    o = []
    A = o.append
    A('#define NPOS ((unsigned long)-1)')
    A('#define SLEN LEN(self)')
    A('#define CH(p) BUF(self)[(p) <= FS_N ? (p) : 0]')
    # needle character j (guarded read)
    A('#define ND(j) s[(j) < count ? (j) : 0]')
    # match of the whole needle at position p
    m = ' && '.join('((%d >= count) || CH((p) + %d) == ND(%d))' % (j, j, j) for j in range(N))
    A('#define MATCH_AT(p) ((p) + count <= SLEN && count <= FS_N && %s)' % m)
    # character c occurs in the needle
    A('#define IN_SET(c) (%s)' % ' || '.join('(%d < count && (c) == ND(%d))' % (j, j) for j in range(2 * N)))

    def first(pred, lo_cond):       # smallest p in 0..N with lo_cond(p) and pred(p)
        e = 'NPOS'
        for p in reversed(range(N + 1)):
            e = '((%s && %s) ? %dul : %s)' % (lo_cond % p, pred % p, p, e)
        return e

    def last(pred, hi_cond):
        e = 'NPOS'
        for p in range(N + 1):
            e = '((%s && %s) ? %dul : %s)' % (hi_cond % p, pred % p, p, e)
        return e
    # (the counted-needle overloads need nested unwinding of capacity x needle length and did not finish in the time box: not under contract)
    # defaulted position arguments: the wrappers in the instantiation unit call s.f(c) with NO position, so the declared default is used;
    # std::basic_string declares pos = 0 for find / find_first_(not_)of and pos = npos for rfind / find_last_(not_)of
    def chr_first(neg):
        e = 'NPOS'
        for p in reversed(range(N + 1)):
            e = '((%dul < LEN(str) && (BUF(str)[%d] %s c)) ? %dul : %s)' % (p, p, '!=' if neg else '==', p, e)
        return e

    def chr_last(neg):
        e = 'NPOS'
        for p in range(N + 1):
            e = '((%dul < LEN(str) && (BUF(str)[%d] %s c)) ? %dul : %s)' % (p, p, '!=' if neg else '==', p, e)
        return e
    # character overloads with an explicit position (any pos in size_t, in particular pos > size() with stale bytes after the terminator)
    def chr_pos(forward, neg):
        e = 'NPOS'
        for p in (reversed(range(N + 1)) if forward else range(N + 1)):
            cond = ('pos <= %dul' % p) if forward else ('pos >= %dul' % p)
            e = '((%s && %dul < LEN(self) && (BUF(self)[%d] %s ch)) ? %dul : %s)' % (cond, p, p, '!=' if neg else '==', p, e)
        return e
    for nm, fw, neg in (('find', True, False), ('rfind', False, False), ('find_first_of', True, False), ('find_last_of', False, False),
                        ('find_first_not_of', True, True), ('find_last_not_of', False, True)):
        A('#define XV_CONTRACT_fs__%s__c_ul_c __CPROVER_requires(VALID(self)) __CPROVER_ensures(RV == %s) __CPROVER_assigns(xv_m)' % (nm, chr_pos(fw, neg)))
    W = '__CPROVER_requires(OBJ(str) && WF(str))'
    for nm, spec in (('find', chr_first(False)), ('rfind', chr_last(False)), ('find_first_of', chr_first(False)), ('find_last_of', chr_last(False)),
                     ('find_first_not_of', chr_first(True)), ('find_last_not_of', chr_last(True))):
        A('#define XV_CONTRACT_dflt_%s__rfs_c %s __CPROVER_ensures(RV == %s) __CPROVER_assigns(xv_m)' % (nm, W, spec))
    return '\n'.join(o) + '\n'


def first_of(N, forward, neg):
    e = 'NPOS'
    rng = reversed(range(N + 1)) if forward else range(N + 1)
    for p in rng:
        cond = ('pos <= %dul' % p) if forward else ('pos >= %dul' % p)
        pred = '(%dul < SLEN && %sIN_SET(CH(%dul)))' % (p, '!' if neg else '', p)
        e = '((%s && %s) ? %dul : %s)' % (cond, pred, p, e)
    return e


# ---------------------------------------------------------------------------------------------------------------------------
# Second family (added later): the overloads that forward to the counted kernels - sources given as another fixed string, as a
# std::basic_string (model: {data, size} with data[size] == 0), as an iterator range, and positions given as iterators.
# Every mutator is one "splice":   chr' = chr[0, P) ++ SRC[0, M) ++ chr[P + C, len)     (std::basic_string::replace semantics;
# assign: P = 0, C = len; append: P = len, C = 0; insert: C = 0; erase: M = 0).  {L} is the string's own length BEFORE the call.
def generate_more(N, layout):
    if layout == 'strlen':
        return ''          # the strlen-sized layout needs non-NUL sources (stated per overload in generate()); not generated here
    o = []
    A = o.append

    def pre(e):
        return e.replace('{L}', 'LEN(self)')

    def post(e):
        return e.replace('{L}', 'OLDLEN(self)')

    def MIN(a, b):
        return '((%s) < (%s) ? (%s) : (%s))' % (a, b, a, b)

    A('/* clauses about VALUES that C02 (bounds, exceptions, unchanged-on-throw) does not speak about */')
    A('#ifdef XV_PROP_C02\n#define XV_C01_ONLY(x)\n#else\n#define XV_C01_ONLY(x) x\n#endif')
    A('#define XSTR(p) (__CPROVER_is_fresh(p, sizeof(*(p))) && (p)->size <= 4 * FS_N && __CPROVER_is_fresh((p)->data, (p)->size + 1) && (p)->data[(p)->size] == 0)')
    A('#define FSTR(p) (OBJ(p) && WF(p))')
    A('#define AT(k) (&BUF(self)[0] + (k))')
    # NUL-terminated C-string sources: xv_n (ghost) is the length, i.e. the terminator is at s[xv_n] and no NUL occurs before it
    # (written out for the 4N positions the argument bound allows, so that strlen(s) == xv_n without a quantifier)
    A('#define NZ4(p, n) (%s)' % ' && '.join('((n) <= %dul || (p)[%d] != 0)' % (k, k) for k in range(4 * N)))
    A('#define CSTR(p) (xv_n <= 4 * FS_N && __CPROVER_is_fresh(p, xv_n + 1) && (p)[xv_n] == 0 && NZ4(p, xv_n))')

    class Src:
        """source range SRC[0, M): base pointer, total length, offset into it, requested count (None = the rest)"""
        def __init__(self, req, base, total, off=None, cnt=None, fill=None):
            self.req, self.base, self.total, self.off, self.cnt, self.fill = req, base, total, off, cnt, fill

        def M(self):
            if self.fill is not None:
                return self.cnt
            rest = '(%s - %s)' % (self.total, self.off) if self.off else self.total
            return MIN(self.cnt, rest) if self.cnt else rest

        def ch(self, k):
            if self.fill is not None:
                return 'UC(%s)' % self.fill
            return 'UC((%s)[%s(%s)])' % (self.base, ('%s + ' % self.off) if self.off else '', k)

        def rerr(self):
            return '(%s > %s)' % (self.off, self.total) if self.off else None

    def xs(p, off=None, cnt=None):
        return Src('XSTR(%s)' % p, '(%s)->data' % p, '(%s)->size' % p, off, cnt)

    def fs(p, off=None, cnt=None):
        return Src('FSTR(%s)' % p, 'BUF(%s)' % p, 'LEN(%s)' % p, off, cnt)

    def rng(first, last):
        return Src('(xv_n <= 4 * FS_N && __CPROVER_is_fresh(%s, xv_n) && %s == %s + xv_n)' % (first, last, first), first, 'xv_n')

    def cs(p):
        return Src('CSTR(%s)' % p, p, 'xv_n')

    def fill(cnt, c):
        return Src('(%s <= 4 * FS_N)' % cnt, None, None, None, cnt, c)

    def splice(name, P, Cn, src, own_rerr=None, extra_req=(), ret='RV == self', lenerr=True, noexc=False):
        M = src.M() if src else '0ul'
        rerrs = [r for r in ((src.rerr() if src else None), own_rerr) if r]
        RERR = ' || '.join(rerrs) if rerrs else '0'
        cl = ['ENTRY' + (' __CPROVER_requires(%s)' % src.req if src else '')]
        for r in extra_req:
            cl.append('__CPROVER_requires(%s)' % r)
        if src:
            cl.append('__CPROVER_requires((!(%s) && xv_g >= %s && xv_g - %s < %s) ==> xv_a1 == %s)' % (pre(RERR), pre(P), pre(P), pre(M), src.ch('xv_g - %s' % pre(P))))
        cl.append('__CPROVER_requires((!(%s) && xv_g + %s >= %s && xv_g + %s - %s <= FS_N) ==> xv_a2 == UC(BUF(self)[xv_g + %s - %s]))' % (pre(RERR), pre(Cn), pre(M), pre(Cn), pre(M), pre(Cn), pre(M)))
        NEWLEN = '(OLDLEN(self) - %s + %s)' % (post(Cn), post(M))
        if noexc:
            cl.append('__CPROVER_requires({L} - %s + %s <= FS_N)'.replace('{L}', 'LEN(self)') % (pre(Cn), pre(M)))
            cl.append('__CPROVER_ensures(xv_exc == 0 && WF(self))')
        else:
            cl.append('__CPROVER_ensures((xv_exc == RANGEERR) == (%s))' % post(RERR))
            if lenerr:
                cl.append('__CPROVER_ensures((xv_exc == LENERR) == (!(%s) && %s > FS_N)) ON_THROW' % (post(RERR), NEWLEN))
            else:
                cl.append('__CPROVER_ensures(xv_exc == 0 || xv_exc == RANGEERR) ON_THROW')
        cl.append('__CPROVER_ensures(xv_exc == 0 ==> (LEN(self) == %s && %s))' % (NEWLEN, post(ret)))
        cl.append('__CPROVER_ensures((xv_exc == 0 && xv_g < LEN(self)) ==> UC(BUF(self)[xv_g]) == (xv_g < %s ? UC(OLDCH(self)) : xv_g < %s + %s ? xv_a1 : xv_a2))' % (post(P), post(P), post(M)))
        cl.append('FRAME')
        A('#define XV_CONTRACT_%s \\\n  %s' % (name, ' \\\n  '.join(cl)))

    # ---- assign
    splice('fs__assign__rxv_str_ul_ul', '0ul', '{L}', xs('other', 'pos', 'count'))
    splice('fs__assign__rfs_ul_ul', '0ul', '{L}', fs('other', 'pos', 'count'))
    splice('fs__assign__rfs', '0ul', '{L}', fs('rhs'))
    splice('fs__assign__Rfs', '0ul', '{L}', fs('rhs'))
    splice('fs__assign__T_pc__pc_pc', '0ul', '{L}', rng('first', 'last'))
    if N <= 8:
        # NUL-terminated C-string overloads (strlen unwound to the argument bound 4N + 1: see CSTR_ALIASES in props/C01.py)
        splice('fs__assign__pc', '0ul', '{L}', cs('s'))
        splice('fs__op_assign__pc', '0ul', '{L}', cs('s'))
        splice('fs__append__pc', '{L}', '0ul', cs('s'))
        splice('fs__op_add_assign__pc', '{L}', '0ul', cs('s'))
        splice('fs__insert__ul_pc', 'index', '0ul', cs('s'), own_rerr='(index > {L})')
        splice('fs__replace__ul_ul_pc', 'pos', MIN('count', '({L} - pos)'), cs('cstr'), own_rerr='(pos > {L})')
    # ---- insert by index
    splice('fs__insert__ul_rxv_str', 'index', '0ul', xs('str'), own_rerr='(index > {L})')
    splice('fs__insert__ul_rxv_str_ul_ul', 'index', '0ul', xs('str', 'index_str', 'count'), own_rerr='(index > {L})')
    splice('fs__insert__ul_rfs', 'index', '0ul', fs('str'), own_rerr='(index > {L})')
    splice('fs__insert__ul_rfs_ul_ul', 'index', '0ul', fs('str', 'index_str', 'count'), own_rerr='(index > {L})')
    # ---- insert / erase by iterator: pos designates index xv_a3 in [0, size()] - INCLUDING end() (std::basic_string inserts there);
    #      the result is the iterator to the first inserted character (resp. to the character following the erased ones)
    # (pointer_in_range_dfcc is the form of pointer equality that keeps the points-to information when assumed)
    IT = lambda p, g, hi: '%s <= %s && %s <= FS_N && __CPROVER_pointer_in_range_dfcc(AT(%s), %s, AT(%s))' % (g, hi, g, g, p, g)
    splice('fs__insert__pc_ul_c', 'xv_a3', '0ul', fill('count', 'ch'), extra_req=[IT('pos', 'xv_a3', 'LEN(self)')], ret='RV == AT(xv_a3)')
    splice('fs__insert__pc_c', 'xv_a3', '0ul', fill('1ul', 'ch'), extra_req=[IT('pos', 'xv_a3', 'LEN(self)')], ret='RV == AT(xv_a3)')
    splice('fs__insert__T_pc__pc_pc_pc', 'xv_a3', '0ul', rng('first', 'last'), extra_req=[IT('pos', 'xv_a3', 'LEN(self)')], ret='RV == AT(xv_a3)')
    splice('fs__erase__pc', 'xv_a3', '1ul', None, extra_req=[IT('position', 'xv_a3', 'LEN(self)'), 'xv_a3 < LEN(self)'], ret='RV == AT(xv_a3)', noexc=True)
    splice('fs__erase__pc_pc', 'xv_a3', '(xv_a4 - xv_a3)', None, extra_req=[IT('first', 'xv_a3', 'xv_a4'), IT('last', 'xv_a4', 'LEN(self)')], ret='RV == AT(xv_a3)', noexc=True)
    # ---- append
    splice('fs__append__rxv_str', '{L}', '0ul', xs('str'))
    splice('fs__append__rxv_str_ul_ul', '{L}', '0ul', xs('str', 'pos', 'count'))
    splice('fs__append__rfs', '{L}', '0ul', fs('str'))
    splice('fs__append__rfs_ul_ul', '{L}', '0ul', fs('str', 'pos', 'count'))
    splice('fs__append__T_pc__pc_pc', '{L}', '0ul', rng('first', 'last'))
    splice('fs__op_add_assign__rxv_str', '{L}', '0ul', xs('str'))
    splice('fs__op_add_assign__rfs', '{L}', '0ul', fs('str'))
    splice('fs__op_add_assign__c', '{L}', '0ul', fill('1ul', 'ch'))
    # ---- replace by position
    RC = lambda p, c: MIN(c, '({L} - %s)' % p)
    splice('fs__replace__ul_ul_rxv_str', 'pos', RC('pos', 'count'), xs('str'), own_rerr='(pos > {L})')
    splice('fs__replace__ul_ul_rfs', 'pos', RC('pos', 'count'), fs('str'), own_rerr='(pos > {L})')
    splice('fs__replace__ul_ul_rxv_str_ul_ul', 'pos1', RC('pos1', 'count1'), xs('str', 'pos2', 'count2'), own_rerr='(pos1 > {L})')
    splice('fs__replace__ul_ul_rfs_ul_ul', 'pos1', RC('pos1', 'count1'), fs('str', 'pos2', 'count2'), own_rerr='(pos1 > {L})')
    splice('fs__replace__ul_ul_ul_c', 'pos', RC('pos', 'count'), fill('count2', 'ch'), own_rerr='(pos > {L})')
    # ---- replace by iterator range [first, last) = [xv_a3, xv_a4), possibly empty, possibly at end()
    ITR = [IT('first', 'xv_a3', 'xv_a4'), IT('last', 'xv_a4', 'LEN(self)')]
    splice('fs__replace__pc_pc_rxv_str', 'xv_a3', '(xv_a4 - xv_a3)', xs('str'), extra_req=ITR)
    splice('fs__replace__pc_pc_rfs', 'xv_a3', '(xv_a4 - xv_a3)', fs('str'), extra_req=ITR)
    splice('fs__replace__pc_pc_pc_ul', 'xv_a3', '(xv_a4 - xv_a3)', Src('(count2 <= 4 * FS_N && __CPROVER_is_fresh(cstr, count2))', 'cstr', 'count2'), extra_req=ITR)
    splice('fs__replace__pc_pc_ul_c', 'xv_a3', '(xv_a4 - xv_a3)', fill('count2', 'ch'), extra_req=ITR)
    splice('fs__replace__T_pc__pc_pc_pc_pc', 'xv_a3', '(xv_a4 - xv_a3)', rng('first2', 'last2'), extra_req=ITR)
    # ---- resize(count): new characters are CharT()
    A('#define XV_CONTRACT_fs__resize__ul ENTRY __CPROVER_ensures((xv_exc == LENERR) == (count > FS_N)) __CPROVER_ensures(xv_exc == 0 || xv_exc == LENERR) ON_THROW \\\n'
      '  __CPROVER_ensures(xv_exc == 0 ==> LEN(self) == count) \\\n'
      '  __CPROVER_ensures((xv_exc == 0 && xv_g < count && xv_g < OLDLEN(self)) ==> BUF(self)[xv_g] == OLDCH(self)) \\\n'
      '  /* the clause below is a recorded finding (known_findings.txt): resize(count) pads with a blank, std::basic_string with CharT() */ \\\n'
      '  XV_C01_ONLY(__CPROVER_ensures((xv_exc == 0 && xv_g < count && xv_g >= OLDLEN(self)) ==> BUF(self)[xv_g] == 0)) FRAME')
    # ---- substr(pos, count): a new string holding chr[pos, pos + min(count, len - pos)); the source is unchanged
    A('#define XV_CONTRACT_fs__substr__ul_ul_c __CPROVER_requires(VALID(self) && xv_exc == 0) GIDX \\\n'
      '  __CPROVER_requires((pos <= LEN(self) && xv_g + pos <= FS_N) ==> xv_a1 == UC(BUF(self)[xv_g + pos])) \\\n'
      '  __CPROVER_ensures((xv_exc == RANGEERR) == (pos > LEN(self))) __CPROVER_ensures(xv_exc == 0 || xv_exc == RANGEERR) \\\n'
      '  __CPROVER_ensures(xv_exc == 0 ==> (WF(&RV) && LEN(&RV) == %s)) \\\n'
      '  __CPROVER_ensures((xv_exc == 0 && xv_g < LEN(&RV)) ==> UC(BUF(&RV)[xv_g]) == xv_a1) \\\n'
      '  __CPROVER_assigns(xv_exc)' % MIN('count', '(LEN(self) - pos)'))
    # ---- swap: lengths and characters exchanged
    A('#define XV_CONTRACT_fs__swap__rfs ENTRY __CPROVER_requires(FSTR(rhs)) \\\n'
      '  __CPROVER_ensures(xv_exc == 0 && WF(self) && WF(rhs) && LEN(self) == OLDLEN(rhs) && LEN(rhs) == OLDLEN(self)) \\\n'
      '  __CPROVER_ensures(xv_g < LEN(self) ==> BUF(self)[xv_g] == OLDCH(rhs)) __CPROVER_ensures(xv_g < LEN(rhs) ==> BUF(rhs)[xv_g] == OLDCH(self)) \\\n'
      '  __CPROVER_assigns(xv_exc, *self, *rhs)')

    # ---- compare: sign of comparing chr[pos1, pos1 + c1) with SRC (witness xv_m = first differing index, xv_k a ghost index below it)
    def compare(name, src, pos1=None, count1=None):
        c1 = MIN(count1, '(LEN(self) - %s)' % pos1) if pos1 else 'LEN(self)'
        p1 = pos1 or '0ul'
        c2 = src.M()
        rerrs = [r for r in (('(%s > LEN(self))' % pos1) if pos1 else None, src.rerr()) if r]
        RERR = ' || '.join(rerrs) if rerrs else '0'
        cmin = MIN(c1, c2)
        b2 = lambda k: '(%s)[%s(%s)]' % (src.base, ('%s + ' % src.off) if src.off else '', k)
        cl = ['__CPROVER_requires(VALID(self) && %s && xv_exc == 0 && xv_k <= 4 * FS_N)' % src.req,
              '__CPROVER_ensures((xv_exc == RANGEERR) == (%s)) __CPROVER_ensures(xv_exc == 0 || xv_exc == RANGEERR)' % RERR,
              '__CPROVER_ensures(xv_exc == 0 ==> xv_m <= %s)' % cmin,
              '__CPROVER_ensures((xv_exc == 0 && xv_k < xv_m) ==> BUF(self)[%s + xv_k] == %s)' % (p1, b2('xv_k')),
              '__CPROVER_ensures((xv_exc == 0 && xv_m < %s) ==> (RV != 0 && (RV < 0) == (UC(BUF(self)[%s + xv_m]) < UC(%s))))' % (cmin, p1, b2('xv_m')),
              '__CPROVER_ensures((xv_exc == 0 && xv_m == %s) ==> ((RV < 0) == (%s < %s) && (RV > 0) == (%s > %s)))' % (cmin, c1, c2, c1, c2),
              '__CPROVER_assigns(xv_exc, xv_m)']
        A('#define XV_CONTRACT_%s \\\n  %s' % (name, ' \\\n  '.join(cl)))
    CS = Src('(count2 <= 4 * FS_N && __CPROVER_is_fresh(s, count2))', 's', 'count2')
    compare('fs__compare__rxv_str_c', xs('str'))
    compare('fs__compare__rfs_c', fs('str'))
    compare('fs__compare__ul_ul_rxv_str_c', xs('str'), 'pos1', 'count1')
    compare('fs__compare__ul_ul_rfs_c', fs('str'), 'pos1', 'count1')
    compare('fs__compare__ul_ul_rxv_str_ul_ul_c', xs('str', 'pos2', 'count2'), 'pos1', 'count1')
    compare('fs__compare__ul_ul_pc_ul_c', CS, 'pos1', 'count1')
    if N <= 8:
        compare('fs__compare__pc_c', cs('s'))
        compare('fs__compare__ul_ul_pc_c', cs('s'), 'pos1', 'count1')
    return '\n'.join(o) + '\n'
