// C08 replay: evaluate the half operation named by OP on the verifier's counterexample operands (bit patterns X, Y, Z /
// float bits F / double bits D) with the real header and compare with an independent exact reference (long double /
// __int128 arithmetic, one round-to-nearest-even step).  Exit 1 = the real code disagrees with IEEE 754.
#define HALF_ENABLE_F16C_INTRINSICS 0
#include <xtl/xhalf_float.hpp>
#include <cstdio>
#include <cstring>
#include <cmath>
#include <string>
using half_float::half;
static half mk(unsigned b) { half h; unsigned short s = (unsigned short)b; std::memcpy(&h, &s, 2); return h; }
static unsigned bits(half h) { unsigned short s; std::memcpy(&s, &h, 2); return s; }
static bool isnan16(unsigned b) { return (b & 0x7FFF) > 0x7C00; }
// exact value of a finite half as long double
static long double val(unsigned b) { int e = (b >> 10) & 31, m = b & 0x3FF; long double v = e ? std::ldexp((long double)(m | 0x400), e - 25) : std::ldexp((long double)m, -24); return (b & 0x8000) ? -v : v; }
// RNE rounding of a long double (exactly representing the real result, or close enough that double rounding is innocuous) to half bits
static unsigned rne(long double v, bool neg_zero = false)
{
  if (v != v) return 0x7E00;
  unsigned sign = std::signbit(v) ? 0x8000 : 0; long double a = std::fabs(v);
  if (a == 0) return neg_zero ? 0x8000 : sign;
  if (std::isinf(a)) return sign | 0x7C00;
  int q; std::frexp(a, &q); q -= 1;                       // a in [2^q, 2^(q+1))
  int ulp = q >= -14 ? q - 10 : -24;
  long double s = std::ldexp(a, -ulp), f = std::floor(s), r = s - f;
  unsigned long long k = (unsigned long long)f;
  if (r > 0.5L || (r == 0.5L && (k & 1))) ++k;
  long double rv = std::ldexp((long double)k, ulp);
  if (rv >= 65536.0L) return sign | 0x7C00;
  if (rv == 0) return sign;
  int q2; std::frexp(rv, &q2); q2 -= 1;
  if (q2 < -14) return sign | (unsigned)k;
  unsigned long long m = (unsigned long long)std::ldexp(rv, 10 - q2);
  return sign | ((unsigned)(q2 + 15) << 10) | ((unsigned)m & 0x3FF);
}
static bool same(unsigned a, unsigned b) { return (isnan16(a) && isnan16(b)) || a == b; }
int main()
{
  const std::string op = XV_OP; unsigned x = XV_X, y = XV_Y, z = XV_Z; int bad = 0;
  half hx = mk(x), hy = mk(y), hz = mk(z);
  bool fin = (x & 0x7C00) != 0x7C00 && (y & 0x7C00) != 0x7C00;
  auto chk = [&](const char* name, unsigned got, unsigned exp) { std::printf("%s: operands 0x%04x 0x%04x 0x%04x -> 0x%04x, IEEE 754 expects 0x%04x%s\n", name, x, y, z, got, exp, same(got, exp) ? "" : "   MISMATCH"); if (!same(got, exp)) bad = 1; };
  if (op.find("op_add") != std::string::npos || op.find("op_sub__half_half") != std::string::npos)
  {
    bool sub = op.find("op_sub") != std::string::npos; unsigned yy = sub ? y ^ 0x8000 : y;
    unsigned got = bits(sub ? hx - hy : hx + hy), exp;
    if (isnan16(x) || isnan16(y)) exp = 0x7E00;
    else if (!fin) { long double r = ((x & 0x7FFF) == 0x7C00 ? ((x & 0x8000) ? -INFINITY : INFINITY) : val(x)) + ((yy & 0x7FFF) == 0x7C00 ? ((yy & 0x8000) ? -INFINITY : INFINITY) : val(yy)); exp = rne(r); }
    else { long double r = val(x) + val(yy); exp = rne(r, r == 0 && (x & 0x8000) && (yy & 0x8000)); }
    chk(sub ? "operator-" : "operator+", got, exp);
  }
  if (op.find("op_mul") != std::string::npos)
  {
    unsigned got = bits(hx * hy), exp, sign = (x ^ y) & 0x8000;
    if (isnan16(x) || isnan16(y)) exp = 0x7E00;
    else if (!fin) exp = ((x & 0x7FFF) == 0 || (y & 0x7FFF) == 0) ? 0x7E00 : (sign | 0x7C00);
    else { exp = rne(val(x) * val(y)); if ((exp & 0x7FFF) == 0) exp = sign; }
    chk("operator*", got, exp);
  }
  if (op.find("op_div") != std::string::npos)
  {
    unsigned got = bits(hx / hy), exp, sign = (x ^ y) & 0x8000; unsigned ax = x & 0x7FFF, ay = y & 0x7FFF;
    if (isnan16(x) || isnan16(y)) exp = 0x7E00;
    else if (ax == 0x7C00) exp = ay == 0x7C00 ? 0x7E00 : (sign | 0x7C00);
    else if (ay == 0x7C00) exp = sign;
    else if (ay == 0) exp = ax == 0 ? 0x7E00 : (sign | 0x7C00);
    else { exp = rne(val(x) / val(y)); if ((exp & 0x7FFF) == 0) exp = sign; }   // 64-bit long double: double rounding innocuous (64 >= 2*11+2)
    chk("operator/", got, exp);
  }
  if (op.find("sqrt") != std::string::npos)
  {
    unsigned got = bits(half_float::sqrt(hx)), exp;
    if (isnan16(x)) exp = 0x7E00; else if ((x & 0x7FFF) == 0) exp = x; else if (x & 0x8000) exp = 0x7E00; else if (x == 0x7C00) exp = x; else exp = rne(std::sqrt(val(x)));
    chk("sqrt", got, exp);
  }
  if (op.find("fma") != std::string::npos)
  {
    unsigned got = bits(half_float::fma(hx, hy, hz)), exp; unsigned sign = (x ^ y) & 0x8000; bool finz = (z & 0x7C00) != 0x7C00;
    if (isnan16(x) || isnan16(y) || isnan16(z)) exp = 0x7E00;
    else if (!fin) exp = ((x & 0x7FFF) == 0 || (y & 0x7FFF) == 0) ? 0x7E00 : ((!finz && (z & 0x8000) != sign) ? 0x7E00 : (sign | 0x7C00));
    else if (!finz) exp = z;
    else if ((x & 0x7FFF) == 0 || (y & 0x7FFF) == 0) exp = (z & 0x7FFF) ? z : (sign & z & 0x8000);
    else { long double p = val(x) * val(y);            // exact in 64-bit long double (22 significant bits)
           // exact sum may need more than 64 bits: use two-step with sticky when the exponents are far apart
           long double s = p + val(z); long double err = (std::fabs(p) >= std::fabs(val(z))) ? (val(z) - (s - p)) : (p - (s - val(z)));
           if (err != 0) { long double t = std::nextafter(s, err > 0 ? INFINITY : -INFINITY); (void)t; s += (err > 0 ? 1 : -1) * std::ldexp(std::fabs(s), -62); }
           exp = s == 0 ? 0 : rne(s); }
    chk("fma", got, exp);
  }
  if (op.find("float2half_impl") != std::string::npos)
  {
    if (op.find("__d_") != std::string::npos) { unsigned long long d = XV_D; double v; std::memcpy(&v, &d, 8); unsigned got = half_float::detail::float2half<std::round_to_nearest>(v); unsigned exp = rne((long double)v);
      if ((exp & 0x7FFF) == 0) exp = std::signbit(v) ? 0x8000 : 0; std::printf("double bits 0x%016llx -> 0x%04x, expects 0x%04x%s\n", d, got, exp, same(got, exp) ? "" : "   MISMATCH"); if (!same(got, exp)) bad = 1; }
    else { unsigned f = XV_F; float v; std::memcpy(&v, &f, 4); unsigned got = bits(half(v)); unsigned exp = rne((long double)v); if ((exp & 0x7FFF) == 0) exp = std::signbit(v) ? 0x8000 : 0;
      std::printf("float bits 0x%08x (%g) -> 0x%04x, expects 0x%04x%s\n", f, (double)v, got, exp, same(got, exp) ? "" : "   MISMATCH"); if (!same(got, exp)) bad = 1; }
  }
  if (op.find("half2float_impl") != std::string::npos)
  {
    float got = static_cast<float>(hx); bool ok = isnan16(x) ? (got != got) : ((x & 0x7FFF) == 0x7C00 ? (std::isinf(got) && std::signbit(got) == !!(x & 0x8000)) : ((long double)got == val(x) && std::signbit(got) == !!(x & 0x8000)));
    std::printf("half 0x%04x -> float %a%s\n", x, (double)got, ok ? "" : "   MISMATCH"); if (!ok) bad = 1;
  }
  const char* cmps[] = {"op_eq", "op_ne", "op_lt", "op_gt", "op_le", "op_ge"};
  for (int k = 0; k < 6; ++k) if (op.find(cmps[k]) != std::string::npos)
  {
    float fx = static_cast<float>(hx), fy = static_cast<float>(hy); bool got, exp;
    switch (k) { case 0: got = hx == hy; exp = fx == fy; break; case 1: got = hx != hy; exp = fx != fy; break; case 2: got = hx < hy; exp = fx < fy; break;
                 case 3: got = hx > hy; exp = fx > fy; break; case 4: got = hx <= hy; exp = fx <= fy; break; default: got = hx >= hy; exp = fx >= fy; }
    std::printf("%s(0x%04x, 0x%04x) = %d, float comparison gives %d%s\n", cmps[k], x, y, (int)got, (int)exp, got == exp ? "" : "   MISMATCH"); if (got != exp) bad = 1;
  }
  return bad;
}
