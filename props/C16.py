"""C16: span views cover exactly the requested sub-range; checked mode rejects bad ones."""
import os, re
from xv.unit import Unit
from xv.driver import Job, VERIF
from xv.prop import native_run

PROP = 'C16'

INST = r'''
#include <vector>
#include <array>
#include <xtl/xspan.hpp>
using tcb::span;
template class tcb::span<int>;
template class tcb::span<int, 4>;
// member templates and constructor templates: named once so that clang instantiates them
span<int, 2> f1(const span<int>& s) { return s.first<2>(); }
span<int, 2> f2(const span<int>& s) { return s.last<2>(); }
span<int, 2> f3(const span<int>& s) { return s.subspan<1, 2>(); }
span<int>    f4(const span<int>& s) { return s.subspan<1>(); }
span<int, 2> g1(const span<int, 4>& s) { return s.first<2>(); }
span<int, 2> g2(const span<int, 4>& s) { return s.last<2>(); }
span<int, 2> g3(const span<int, 4>& s) { return s.subspan<1, 2>(); }
span<int, 3> g4(const span<int, 4>& s) { return s.subspan<1>(); }
span<int>    c1(int (&a)[4]) { return span<int>(a); }
span<int, 4> c2(int (&a)[4]) { return span<int, 4>(a); }
span<int>    c3(std::array<int, 4>& a) { return span<int>(a); }
span<int, 4> c4(std::array<int, 4>& a) { return span<int, 4>(a); }
span<int>    c5(std::vector<int>& v) { return span<int>(v); }
span<int, 4> c6(std::vector<int>& v) { return span<int, 4>(v); }
span<int>    c7(const span<int, 4>& s) { return span<int>(s); }
span<int>    c8() { return span<int>(); }
'''


def rec_alias():
    out = []
    for n in (2, 3, 4):
        out.append((r'tcb::span<int,%d>' % n, 'span%d' % n))
        out.append((r'tcb::detail::span_storage<int,%d>' % n, 'sto%d' % n))
    out.append((r'tcb::span<int,-1>', 'span_dyn'))
    out.append((r'tcb::detail::span_storage<int,-1>', 'sto_dyn'))
    return out


def select(fn, q, lw):
    return q.startswith('tcb::span::')


HEAD = r'''
/* contracts for tcb::span<int> (span_dyn) and tcb::span<int,4> (span4); view = (ptr, size).
   Parent storage is a fresh object of exactly size elements, so any returned pointer outside it fails a pointer check
   at its first use and any mismatch with ptr+offset fails the postcondition (pointer identity: writes land in the parent). */
#define XV_SPAN_MAX 65536ul   /* bound on the PARENT size only; offsets, counts and indices range over all of size_t */
#define DYN ((unsigned long)-1)
/* (defined here as well, so that code that no longer throws at all fails its postconditions instead of failing to compile) */
#ifndef XV_EXC_tcb_contract_violation_error
#define XV_EXC_tcb_contract_violation_error 199
#endif
#define VIOL XV_EXC_tcb_contract_violation_error
#define P(s) ((s)->storage_.ptr)
#define SZ_dyn(s) ((s)->storage_.size)
#define SZ_4(s) 4ul
#define OK_dyn(s) (__CPROVER_is_fresh(s, sizeof(*(s))) && SZ_dyn(s) <= XV_SPAN_MAX && __CPROVER_is_fresh(P(s), SZ_dyn(s) * sizeof(int)))
#define OK_4(s) (__CPROVER_is_fresh(s, sizeof(*(s))) && __CPROVER_is_fresh(P(s), 4 * sizeof(int)))
#define RP (__CPROVER_return_value.storage_.ptr)
#define RS (__CPROVER_return_value.storage_.size)
/* ghosts: xv_n length of the caller's array, xv_k length of the [first,last) range */
'''


def gen_contracts(mode):
    checked = mode in ('thr', 'thrn')

    def gen(unit, lw, roots):
        out = [HEAD]
        have = set(lw.cname(f) for f in roots)

        def C(alias, valid, cond, results, assigns='', exc_extra=None):
            """cond: the operation's range condition (a caller precondition when unchecked; decides the exception when checked)"""
            if alias not in have:
                raise Exception('contract for unknown function ' + alias)
            cl = ['__CPROVER_requires(%s)' % valid, '__CPROVER_requires(xv_exc == 0)']
            if cond is None:
                cl += ['__CPROVER_ensures(%s)' % r for r in results]
                cl.append('__CPROVER_ensures(xv_exc == 0)')
                cl.append('__CPROVER_assigns(%s)' % assigns)
            elif not checked:
                cl.append('__CPROVER_requires(%s)' % cond)
                cl += ['__CPROVER_ensures(%s)' % r for r in results]
                cl.append('__CPROVER_ensures(xv_exc == 0)')
                cl.append('__CPROVER_assigns(%s)' % assigns)
            else:
                cl.append('__CPROVER_ensures((xv_exc == VIOL) == !(%s))' % cond)
                cl.append('__CPROVER_ensures(xv_exc == 0 || xv_exc == VIOL)')
                cl += ['__CPROVER_ensures(xv_exc == 0 ==> (%s))' % r for r in results]
                cl.append('__CPROVER_assigns(%s)' % ('xv_exc' + (', ' + assigns if assigns else '')))
            out.append('#define XV_CONTRACT_%s \\\n  %s\n' % (alias, ' \\\n  '.join(cl)))

        for k in ('dyn', '4'):
            S = 'span_dyn' if k == 'dyn' else 'span4'
            ok, sz = 'OK_%s(self)' % k, 'SZ_%s(self)' % k
            C(S + '__size__v_c', ok, None, ['__CPROVER_return_value == %s' % sz])
            C(S + '__size_bytes__v_c', ok, None, ['__CPROVER_return_value == %s * sizeof(int)' % sz])
            C(S + '__empty__v_c', ok, None, ['__CPROVER_return_value == (%s == 0)' % sz])
            C(S + '__data__v_c', ok, None, ['__CPROVER_return_value == P(self)'])
            for b in ('begin', 'cbegin'):
                C(S + '__%s__v_c' % b, ok, None, ['__CPROVER_return_value == P(self)'])
            for e in ('end', 'cend'):
                C(S + '__%s__v_c' % e, ok, None, ['__CPROVER_return_value == P(self) + %s' % sz])
            for r in ('rbegin', 'crbegin'):
                C(S + '__%s__v_c' % r, ok, None, ['__CPROVER_return_value.current == P(self) + %s' % sz])
            for r in ('rend', 'crend'):
                C(S + '__%s__v_c' % r, ok, None, ['__CPROVER_return_value.current == P(self)'])
            C(S + '__op_index__ul_c', ok, 'idx < %s' % sz, ['__CPROVER_return_value == P(self) + idx'])
            C(S + '__op_call__ul_c', ok, 'idx < %s' % sz, ['__CPROVER_return_value == P(self) + idx'])
            C(S + '__front__v_c', ok, '%s > 0' % sz, ['__CPROVER_return_value == P(self)'])
            C(S + '__back__v_c', ok, '%s > 0' % sz, ['__CPROVER_return_value == P(self) + (%s - 1)' % sz])
            # at(): throws out_of_range exactly for idx >= size() in every mode
            out.append('#define XV_CONTRACT_%s__at__ul_c \\\n  __CPROVER_requires(%s) __CPROVER_requires(xv_exc == 0) \\\n'
                       '  __CPROVER_ensures((xv_exc == XV_EXC_out_of_range) == (idx >= %s)) __CPROVER_ensures(xv_exc == 0 || xv_exc == XV_EXC_out_of_range) \\\n'
                       '  __CPROVER_ensures(xv_exc == 0 ==> __CPROVER_return_value == P(self) + idx) __CPROVER_assigns(xv_exc)\n' % (S, ok, sz))
            C(S + '__first__ul_c', ok, 'count <= %s' % sz, ['RP == P(self)', 'RS == count'])
            C(S + '__last__ul_c', ok, 'count <= %s' % sz, ['RP == P(self) + (%s - count)' % sz, 'RS == count'])
            C(S + '__subspan__ul_ul_c', ok, 'offset <= %s && (count == DYN || count <= %s - offset)' % (sz, sz),
              ['RP == P(self) + offset', 'RS == (count == DYN ? %s - offset : count)' % sz, 'offset + RS <= %s' % sz])
            C(S + '__first__T_2__v_c', ok, '2 <= %s' % sz, ['RP == P(self)'])
            C(S + '__last__T_2__v_c', ok, '2 <= %s' % sz, ['RP == P(self) + (%s - 2)' % sz])
            C(S + '__subspan__T_1_2__v_c', ok, '3 <= %s' % sz, ['RP == P(self) + 1'])
            if k == 'dyn':
                C(S + '__subspan__T_1_m1__v_c', ok, '1 <= %s' % sz, ['RP == P(self) + 1', 'RS == %s - 1' % sz])
            else:
                C(S + '__subspan__T_1_m1__v_c', ok, '1 <= %s' % sz, ['RP == P(self) + 1'])
        # constructors: the object is written, nothing else
        SELF = '__CPROVER_is_fresh(self, sizeof(*self))'
        W = '*self'
        C('span_dyn__ctor__pi_ul', SELF, None, ['P(self) == ptr', 'SZ_dyn(self) == count'], W)
        RANGE = ') __CPROVER_requires(xv_n <= XV_SPAN_MAX && xv_k <= xv_n) __CPROVER_requires(__CPROVER_is_fresh(first_elem, xv_n * sizeof(int))) __CPROVER_requires(last_elem == first_elem + xv_k'
        C('span_dyn__ctor__pi_pi', SELF + RANGE, None, ['P(self) == first_elem', 'SZ_dyn(self) == xv_k'], W)
        C('span4__ctor__pi_ul', SELF, 'count == 4', ['P(self) == ptr'], W)
        C('span4__ctor__pi_pi', SELF + RANGE, 'xv_k == 4', ['P(self) == first_elem'], W)
        C('span_dyn__ctor__T_4_m1_0__pi', SELF + ' && __CPROVER_is_fresh(arr, 4 * sizeof(int))', None, ['P(self) == arr', 'SZ_dyn(self) == 4'], W)
        C('span4__ctor__T_4_4_0__pi', SELF + ' && __CPROVER_is_fresh(arr, 4 * sizeof(int))', None, ['P(self) == arr'], W)
        C('span_dyn__ctor__T_4_m1_0__rxv_arr_int_4', SELF + ' && __CPROVER_is_fresh(arr, sizeof(*arr))', None, ['P(self) == &arr->a[0]', 'SZ_dyn(self) == 4'], W)
        C('span4__ctor__T_4_4_0__rxv_arr_int_4', SELF + ' && __CPROVER_is_fresh(arr, sizeof(*arr))', None, ['P(self) == &arr->a[0]'], W)
        VEC = SELF + ' && __CPROVER_is_fresh(cont, sizeof(*cont)) && cont->size <= XV_SPAN_MAX && __CPROVER_is_fresh(cont->data, cont->size * sizeof(int))'
        C('span_dyn__ctor__T_xv_vec_int_0__rxv_vec_int', VEC, None, ['P(self) == cont->data', 'SZ_dyn(self) == cont->size'], W)
        C('span4__ctor__T_xv_vec_int_0__rxv_vec_int', VEC, 'cont->size == 4', ['P(self) == cont->data'], W)
        C('span_dyn__ctor__T_i_4_0__rspan4', SELF + ' && OK_4(other)', None, ['P(self) == P(other)', 'SZ_dyn(self) == 4'], W)
        C('span_dyn__ctor__T_m1_0__v', SELF, None, ['P(self) == 0', 'SZ_dyn(self) == 0'], W)
        return '\n'.join(out) + '\n'
    return gen


def build(tier, workdir, seed):
    units, jobs = [], []
    # thrn: throwing checks requested explicitly in a release build (NDEBUG only selects the DEFAULT mode; an explicit request must still check)
    for mode, defs in (('nc', ['TCB_SPAN_NO_CONTRACT_CHECKING']), ('thr', ['TCB_SPAN_THROW_ON_CONTRACT_VIOLATION']), ('thrn', ['TCB_SPAN_THROW_ON_CONTRACT_VIOLATION', 'NDEBUG'])):
        u = Unit('span_' + mode, INST, select, gen_contracts(mode), rec_alias(), defines=defs).lower(workdir)
        units.append(u)
        jobs += u.contract_jobs(PROP, timeout=300)
    return {'jobs': jobs, 'units': units, 'trusted_base': sorted(set(sum([list(u.std.used) for u in units], []))) + [
                'clang 14 template instantiation; xtl2c lowering rules (DESIGN.md 3.2)'],
            'assumptions': ['parent size bounded by 65536 elements (object-size limit of the verifier); offsets, counts, indices unbounded',
                            'configurations: span<int> and span<int,4>; static sub-views first<2>, last<2>, subspan<1,2>, subspan<1>; '
                            'modes TCB_SPAN_NO_CONTRACT_CHECKING, TCB_SPAN_THROW_ON_CONTRACT_VIOLATION, and TCB_SPAN_THROW_ON_CONTRACT_VIOLATION together with NDEBUG'],
            'coverage_extra': {'modes': ['no-checking', 'throwing', 'throwing + NDEBUG']}}


# ---------- replay of a verifier counterexample on the real header ----------
OPS = {
    'subspan__ul_ul_c': ('VIEW(s.subspan(offset, count))', 'offset <= n && (count == DYN || count <= n - offset)', 'base + offset', 'count == DYN ? n - offset : count'),
    'first__ul_c': ('VIEW(s.first(count))', 'count <= n', 'base', 'count'),
    'last__ul_c': ('VIEW(s.last(count))', 'count <= n', 'base + (n - count)', 'count'),
    'first__T_2__v_c': ('VIEW(s.first<2>())', '2 <= n', 'base', '2'),
    'last__T_2__v_c': ('VIEW(s.last<2>())', '2 <= n', 'base + (n - 2)', '2'),
    'subspan__T_1_2__v_c': ('VIEW((s.subspan<1, 2>()))', '3 <= n', 'base + 1', '2'),
    'subspan__T_1_m1__v_c': ('VIEW(s.subspan<1>())', '1 <= n', 'base + 1', 'n - 1'),
    'op_index__ul_c': ('ELEM(s[idx])', 'idx < n', 'base + idx', '0'),
    'op_call__ul_c': ('ELEM(s(idx))', 'idx < n', 'base + idx', '0'),
    'front__v_c': ('ELEM(s.front())', 'n > 0', 'base', '0'),
    'back__v_c': ('ELEM(s.back())', 'n > 0', 'base + (n - 1)', '0'),
    'at__ul_c': ('ELEM(s.at(idx))', 'idx < n', 'base + idx', '0'),
    'size__v_c': ('NUM(s.size())', 'true', 'base', 'n'),
    'size_bytes__v_c': ('NUM(s.size_bytes())', 'true', 'base', 'n * sizeof(int)'),
    'empty__v_c': ('NUM(s.empty())', 'true', 'base', 'n == 0'),
    'data__v_c': ('PTR(s.data())', 'true', 'base', '0'), 'begin__v_c': ('PTR(s.begin())', 'true', 'base', '0'),
    'cbegin__v_c': ('PTR(s.cbegin())', 'true', 'base', '0'), 'end__v_c': ('PTR(s.end())', 'true', 'base + n', '0'),
    'cend__v_c': ('PTR(s.cend())', 'true', 'base + n', '0'), 'rbegin__v_c': ('PTR(s.rbegin().base())', 'true', 'base + n', '0'),
    'crbegin__v_c': ('PTR(s.crbegin().base())', 'true', 'base + n', '0'), 'rend__v_c': ('PTR(s.rend().base())', 'true', 'base', '0'),
    'crend__v_c': ('PTR(s.crend().base())', 'true', 'base', '0'),
}


def replay(ctx, job, ob, steps, base):
    from xv.driver import TraceView
    tv = TraceView(steps)
    if not job.enforce:
        return None
    m = re.fullmatch(r'(span_dyn|span4)__(\w+)', job.enforce)
    if not m or m.group(2) not in OPS:
        return None
    kind, op = m.groups()
    mode = 'TCB_SPAN_THROW_ON_CONTRACT_VIOLATION' if job.unit.endswith('thr') else 'TCB_SPAN_THROW_ON_CONTRACT_VIOLATION\n#define NDEBUG 1' if job.unit.endswith('thrn') else 'TCB_SPAN_NO_CONTRACT_CHECKING'
    n = 4 if kind == 'span4' else tv.field(tv.obj_of('self'), 'storage_.size')
    if n is None:
        return None
    args = {a: tv.num('in_' + a, 0) for a in ('offset', 'count', 'idx')}
    call, cond, eptr, esize = OPS[op]
    ty = 'tcb::span<int>' if kind == 'span_dyn' else 'tcb::span<int, 4>'
    prog = r'''#define %(mode)s
#include <xtl/xspan.hpp>
#include <vector>
#include <cstdio>
#include <stdexcept>
static const std::size_t DYN = (std::size_t)-1;
int main() {
  std::size_t n = %(n)sull, offset = %(offset)sull, count = %(count)sull, idx = %(idx)sull;
  std::vector<int> parent(n + 1); int* base = parent.data();
  %(ty)s s(base, n);
  bool viol = false, oor = false; const int* rp = 0; std::size_t rs = 0; bool is_view = false, is_num = false;
#define VIEW(e) { auto r = e; rp = r.data(); rs = r.size(); is_view = true; }
#define ELEM(e) { rp = &(e); }
#define PTR(e) { rp = e; }
#define NUM(e) { rs = (std::size_t)(e); rp = base; is_num = true; }
  try { %(call)s } catch (std::out_of_range&) { oor = true; } catch (std::logic_error&) { viol = true; }
  bool ok = (%(cond)s);
  bool checked = %(checked)s, is_at = %(is_at)s;
  std::printf("%(ty)s of size %%zu: %(op)s(offset=%%zu, count=%%zu, idx=%%zu): %%s\n", n, offset, count, idx,
              viol ? "contract_violation thrown" : oor ? "out_of_range thrown" : "no exception");
  int bad = 0;
  if (is_at) { if (oor != !ok) { std::printf("at(): out_of_range expected exactly for idx >= size()\n"); bad = 1; } }
  else if (checked) { if (viol != !ok) { std::printf("checked mode: request %%s but %%s\n", ok ? "is in range" : "is OUT OF RANGE", viol ? "was rejected" : "was ACCEPTED"); bad = 1; } }
  else if (!ok) { std::printf("(precondition of the unchecked mode violated by these arguments - not a valid replay)\n"); return 2; }
  if (!viol && !oor) {
    const int* ep = %(eptr)s; std::size_t es = (std::size_t)(%(esize)s);
    if (ok && rp != ep) { std::printf("result starts at parent%%+td, expected parent%%+td\n", rp - base, ep - base); bad = 1; }
    if (ok && (is_view || is_num) && rs != es) { std::printf("result size/value %%zu, expected %%zu\n", rs, es); bad = 1; }
    if (!ok && is_view) std::printf("returned view: start parent%%+td, size %%zu (outside a parent of %%zu elements)\n", rp - base, rs, n);
  }
  return bad;
}
''' % dict(mode=mode, n=n, ty=ty, call=call, cond=cond, eptr=eptr, esize=esize, op=op, checked='true' if 'THROW' in mode else 'false',
           is_at='true' if op == 'at__ul_c' else 'false', **args)
    rc, out = native_run(prog, base)
    return (rc == 1, out + '\nprogram: %s.cpp' % base)
