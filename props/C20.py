"""C20: executable_path / prefix_path name the running binary at any install path; endianness reports the byte order."""
import os, re
from xv.unit import Unit
from xv.stdmodel import StdModel
from xv.driver import Job, VERIF
from xv.prop import native_run

PROP = 'C20'
# <cstdlib>/<string> first, as ordinary user code would include them (glibc's <endian.h> macros are then visible to xplatform.hpp)
INST = '''#include <cstdlib>
#include <string>
#include <xtl/xsystem.hpp>
#include <xtl/xplatform.hpp>
auto p1 = &xtl::executable_path; auto p2 = &xtl::prefix_path; auto p3 = &xtl::endianness;
'''


def select(fn, q, lw):
    return q in ('xtl::executable_path', 'xtl::prefix_path', 'xtl::endianness')


def build(tier, workdir, seed):
    ctext = open(os.path.join(VERIF, 'contracts', 'C20_sys.h')).read()
    std = StdModel(); std.strs_mode = True
    u = Unit('sys', INST, select, ctext, std=std, extra_c='unsigned long xv_strs_ncall;\n', ghost_init='  xv_strs_ncall = 0;\n').lower(workdir)
    jobs = u.contract_jobs(PROP, timeout=900, extra={'executable_path__v': {'cases': [('', ['XV_JOB_EXE'])]}})
    return {'jobs': jobs, 'units': [u], 'trusted_base': sorted(u.std.used) + ['clang 14 AST; xtl2c lowering rules (DESIGN.md 3.2)',
                'model/xv_strs.h: std::string as an abstract value (contents = uninterpreted function of identity and position) with sampled contracts for find_last_of / rfind / substr / operator+ / assign / operator=(const char*) - trusted model of libstdc++',
                'xv_readlink in contracts/C20_sys.h: POSIX readlink("/proc/self/exe") places min(length, bufsz) bytes of the install path, no terminator, nothing beyond; or fails with -1',
                'memset (CBMC built-in)'],
            'assumptions': ['Linux branch of xsystem.hpp only (the other platforms are preprocessed away on this image)',
                            'the install path is any byte string of length 1..4096 (PATH_MAX) without NUL starting with / - spaces, backslashes and non-ASCII bytes included; the kernel reports it through /proc/self/exe (symlinks resolved by the kernel, not by xtl)',
                            'universally quantified facts are stated at sample positions (one arbitrary ghost index plus the named / prophecy positions); a contract proved at the arbitrary index is used by callers at their own sample positions (meta-argument, DESIGN.md 3.5)',
                            'prophecy ghosts: the k-th separator search of prefix_path and strlen(buffer) are assumed to return the ghost designated for them; the ghosts are unconstrained, so every real execution is explored',
                            'endianness(): proved for the verified platform model (x86-64, little-endian object representation); include order <cstdlib>, <string> before xplatform.hpp as in user code'],
            'coverage_extra': {'path_length': '1..4096, unbounded in the proof (no unwinding)', 'not_reached': ['Windows / macOS / FreeBSD / Solaris branches of executable_path', 'readlink failure leaves the path empty (property silent)']}}


REPLAY = r'''
// C20 replay: installs a copy of this program at absolute paths of chosen total lengths / with unusual bytes, runs each copy
// (directly and through a symlink) and lets the copy compare xtl::executable_path() / xtl::prefix_path() with the path it was
// installed at.  Built with AddressSanitizer: a read past the internal buffer aborts the copy.  Exit 1 = mismatch (printed).
#include <xtl/xsystem.hpp>
#include <xtl/xplatform.hpp>
#include <string>
#include <vector>
#include <cstdio>
#include <cstdlib>
#include <cstring>
#include <cstdint>
#include <unistd.h>
#include <sys/stat.h>
#include <sys/wait.h>
#include <fcntl.h>
static std::string grandparent(const std::string& p) {            // independent: cut the last two components
  size_t e = p.size(); int cuts = 0;
  while (e > 0 && cuts < 2) { --e; if (p[e] == '/') ++cuts; }
  return p.substr(0, e) + "/"; }
static int child(const char* expect) {
  std::string e = expect, got = xtl::executable_path(), pre = xtl::prefix_path(), gp = grandparent(e);
  int bad = 0;
  if (got != e) { std::printf("executable_path() returned %zu bytes, installed path has %zu bytes%s\n", got.size(), e.size(), got.size() < e.size() && e.compare(0, got.size(), got) == 0 ? " (truncated)" : ""); bad = 1; }
  if (pre != gp) { std::printf("prefix_path() = \"%.80s%s\" (%zu bytes), grandparent directory + '/' is \"%.80s%s\" (%zu bytes)\n", pre.c_str(), pre.size() > 80 ? "..." : "", pre.size(), gp.c_str(), gp.size() > 80 ? "..." : "", gp.size()); bad = 1; }
  return bad; }
static bool mkdirs(const std::string& dir) { for (size_t i = 1; i <= dir.size(); ++i) if (i == dir.size() || dir[i] == '/') { std::string d = dir.substr(0, i); if (mkdir(d.c_str(), 0700) != 0 && errno != EEXIST) return false; } return true; }
static bool copy_self(const std::string& to) {
  int in = open("/proc/self/exe", O_RDONLY), out = open(to.c_str(), O_WRONLY | O_CREAT | O_TRUNC, 0700); if (in < 0 || out < 0) return false;
  char buf[65536]; ssize_t n; while ((n = read(in, buf, sizeof buf)) > 0) if (write(out, buf, (size_t)n) != n) return false; close(in); close(out); return true; }
static int run(const std::string& exe, const std::string& expect, const char* what) {
  std::fprintf(stderr, "trying %s: install path of %zu bytes\n", what, expect.size());
  pid_t pid = fork(); if (pid == 0) { execl(exe.c_str(), exe.c_str(), "child", expect.c_str(), (char*)0); _exit(99); }
  int st = 0; waitpid(pid, &st, 0);
  if (WIFEXITED(st) && WEXITSTATUS(st) == 99) { std::fprintf(stderr, "  (could not exec, skipped)\n"); return 0; }
  if (!WIFEXITED(st) || WEXITSTATUS(st) != 0) { std::printf("FAILED for %s, install path of %zu bytes (exit status %d%s)\n", what, expect.size(), WIFEXITED(st) ? WEXITSTATUS(st) : -1, WIFSIGNALED(st) ? ", killed by a signal / sanitizer" : ""); return 1; }
  return 0; }
// base + filler directories + "/" + bin + "/" + prog with total length len (if possible)
static std::string make_path(const std::string& base, size_t len, const std::string& bin, const std::string& prog) {
  std::string tail = "/" + bin + "/" + prog, p = base;
  while (p.size() + tail.size() < len) { size_t room = len - p.size() - tail.size(); if (room < 2) break; size_t c = room - 1 > 200 ? 200 : room - 1; if (room - 1 - c == 1) --c; p += "/" + std::string(c, 'd'); }
  return p + tail; }
int main(int argc, char** argv) {
  if (argc == 3 && std::strcmp(argv[1], "child") == 0) return child(argv[2]);
  { uint32_t v = 0x01020304; unsigned char b0; std::memcpy(&b0, &v, 1);
    xtl::endian want = b0 == 4 ? xtl::endian::little_endian : b0 == 1 ? xtl::endian::big_endian : xtl::endian::mixed;
    if (xtl::endianness() != want) { std::printf("endianness() = %d, the first byte of 0x01020304 in memory is 0x%02x\n", (int)xtl::endianness(), b0); return 1; } }
  char tmpl[] = "/tmp/xv_c20_XXXXXX"; if (!mkdtemp(tmpl)) { std::printf("no scratch directory\n"); return 2; }
  std::string base = tmpl; int bad = 0;
  struct Case { size_t len; const char* bin; const char* prog; const char* what; };
  std::vector<Case> cases = { {CEX_LEN, "bin", "prog", "verifier counterexample length"}, {0, "bin", "prog", "short path"}, {0, "my bin", "pro g", "spaces"}, {0, "b\xc3\xa9n", "pr\xc3\xb6g\xff", "non-ASCII bytes"},
    {0, "bi\\n", "prog", "backslash in the bin folder name"}, {0, "bin", "pr\\og", "backslash in the program name"}, {255, "bin", "prog", "length"}, {256, "bin", "prog", "length"}, {257, "bin", "prog", "length"}, {1000, "bin", "prog", "length"},
    {1023, "bin", "prog", "length"}, {1024, "bin", "prog", "length"}, {1025, "bin", "prog", "length"}, {2048, "bin", "prog", "length"}, {4000, "bin", "prog", "length"}, {4095, "bin", "prog", "length"} };
  int k = 0;
  for (const Case& c : cases) {
    if (c.len > 4095) continue;
    std::string sub = base + "/c" + std::to_string(k++);
    std::string p = make_path(sub, c.len, c.bin, c.prog);
    std::string dir = p.substr(0, p.rfind('/'));
    if (!mkdirs(dir) || !copy_self(p)) { std::fprintf(stderr, "could not install at a path of %zu bytes, skipped\n", p.size()); continue; }
    bad |= run(p, p, c.what);
    std::string link = sub + "_link"; if (symlink(p.c_str(), link.c_str()) == 0) bad |= run(link, p, "the same binary started through a symlink");
    if (bad) break; }
  std::string rm = "rm -rf '" + base + "'"; if (std::system(rm.c_str()) != 0) {}
  return bad; }
'''


def replay(ctx, job, ob, steps, base):
    from xv.driver import TraceView
    tv = TraceView(steps)
    n = tv.num('xv_n') or 0
    prog = '#define CEX_LEN %dul\n' % min(int(n), 4095) + REPLAY
    rc, out = native_run(prog, base, extra=['-fsanitize=address,undefined', '-fno-sanitize-recover=all', '-g'], timeout=300)
    confirmed = rc not in (0, None, 2)
    i = (out or '').rfind('trying ')
    return (confirmed, (out or '')[max(0, i):][:2500] + '\nprogram: %s.cpp (g++ -fsanitize=address,undefined)' % base)
