"""C02: fixed string stays inside its buffer; failed operations change nothing (same contracts as C01: exceptional
postconditions, whole-buffer 'unchanged' clauses, exact-size fresh arguments, frame = the object)."""
from props import C01
PROP = 'C02'
replay = C01.replay


def build(tier, workdir, seed):
    ctx = C01.build(tier, workdir, seed, prop=PROP)
    # C02 is carried by the jobs whose contracts state exceptions / unchanged-after-throw / memory safety: all of them do
    return ctx
