// C07 replay on the real headers: the clauses of the closure contracts checked natively with an instrumented payload
// (counts copies and records being moved from); built with AddressSanitizer.  Exit 1 = a clause fails (printed).
#include <xtl/xclosure.hpp>
#include <xtl/xoptional.hpp>
#include <xtl/xdynamic_bitset.hpp>
#include <xtl/xsequence.hpp>
#include <cstdio>
#include <vector>
#include <array>
#include <utility>
struct P { int v; int moved_from; static int copies;
  P(int x = 0) : v(x), moved_from(0) {} P(const P& o) : v(o.v), moved_from(0) { ++copies; } P(P&& o) : v(o.v), moved_from(0) { o.moved_from = 1; }
  P& operator=(const P& o) { v = o.v; ++copies; return *this; } P& operator=(P&& o) { v = o.v; o.moved_from = 1; return *this; }
  bool operator==(const P& o) const { return v == o.v; } };
int P::copies = 0;
#define FAIL(msg) do { std::printf("%s\n", msg); return 1; } while (0)
int main()
{
    { P x(5); P::copies = 0; auto w = xtl::closure(x); if (&w != &x) FAIL("closure(lvalue) does not designate the original object");
      if (P::copies) FAIL("closure(lvalue) copied the object");
      w = P(9); if (x.v != 9 || &w != &x) FAIL("assignment through a reference closure did not change the referent / rebound");
      P y(1); auto w2 = xtl::closure(y); w = w2; if (x.v != 1 || &w != &x || &w2 != &y) FAIL("closure = closure did not copy the referent value / rebound");
      auto c = w; if (&c != &x) FAIL("a copy of a reference closure designates another object");
      x.v = 3; y.v = 4; w.swap(w2); if (x.v != 4 || y.v != 3 || &w != &x) FAIL("swap did not exchange the referent values");
      const P cx(7); auto cw = xtl::closure(cx); if (&cw != &cx) FAIL("closure(const lvalue) does not designate the original object");
      auto kw = xtl::const_closure(x); if (&kw != &x) FAIL("const_closure(lvalue) does not designate the original object"); }
    { P* t = new P(11); auto w = xtl::closure(std::move(*t)); delete t; if (w.get().v != 11) FAIL("closure(rvalue) does not own an independent copy"); }
    { int x = 1; bool f = true; auto o = xtl::optional(x, f); o = xtl::xoptional<int, bool>(8, false); if (x != 8 || f != false) FAIL("assignment to an optional of references did not write the referents");
      x = 2; if (o.value() != 2 || &o.value() != &x || &o.has_value() != &f) FAIL("optional(lvalue, lvalue) does not designate the original objects"); }
    { P x(21); bool f = true; xtl::xoptional<P&, bool&> o(x, f); xtl::xoptional<P, bool> v(std::move(o));
      if (x.moved_from) FAIL("constructing an owning optional from an rvalue optional of references moved from the referent (which the source does not own)");
      if (v.value().v != 21 || !v.has_value()) FAIL("owning optional built from an optional of references holds a wrong value"); }
    { xtl::xdynamic_bitset<unsigned char> b(16, false); b.set(3, true);
      auto r5 = b[5]; auto r3 = b[3]; r5 = r3; if (!b[5] || !b[3] || b.count() != 2) FAIL("bit reference a = b did not copy the VALUE of bit b into bit a");
      auto r9 = b[9]; auto r0 = b[0]; b.set(9, true); r9 = r0; if (b[9] || b.count() != 2) FAIL("bit reference a = b (clear) did not copy the value of bit b");
      xtl::xdynamic_bitset<unsigned char> c(16, false); c.set(12, true); auto rc = c[12]; auto rb = b[1]; rb = rc; if (!b[1]) FAIL("bit reference assigned from a reference into another bitset took the wrong bit"); }
    { std::vector<int> v = {1, 2, 3}; const std::vector<int>& cv = v; auto&& f = xtl::forward_sequence<std::vector<int>, const std::vector<int>&>(cv);
      if (static_cast<const void*>(&f) != static_cast<const void*>(&v)) FAIL("forward_sequence of a const lvalue of the requested type made a copy");
      auto&& g = xtl::forward_sequence<std::vector<int>, std::vector<int>&>(v); if (&g != &v) FAIL("forward_sequence of an lvalue of the requested type made a copy");
      const std::array<int, 3> a = {{4, 5, 6}}; auto&& h = xtl::forward_sequence<std::array<int, 3>, const std::array<int, 3>&>(a); if (&h != &a) FAIL("forward_sequence of a const array lvalue made a copy"); }
    { P* t = new P(31); xtl::xclosure_wrapper<xtl::const_closure_type_t<P&&>> w(std::move(*t)); t->v = 99; delete t;
      if (w.get().v != 31) FAIL("a closure of type const_closure_type_t<T&&> aliases the rvalue source instead of owning a copy"); }
    { P* t = new P(32); xtl::xclosure_wrapper<xtl::closure_type_t<P&&>> w(std::move(*t)); t->v = 99; delete t;
      if (w.get().v != 32) FAIL("a closure of type closure_type_t<T&&> aliases the rvalue source instead of owning a copy"); }
    { xtl::xclosure_wrapper<P> w(P(41)); auto&& r = std::move(w).get();
      if (static_cast<const void*>(&r) == static_cast<const void*>(&w.get())) FAIL("get() on an rvalue owning closure hands out its own storage, not an independent object"); }
    { P x(51); bool f = true; P::copies = 0; auto&& r = xtl::value(xtl::optional(x, f));
      if (&r != &x || P::copies) FAIL("xtl::value(temporary optional of references) does not designate the referent (a copy was made)");
      auto&& g = xtl::has_value(xtl::optional(x, f)); if (&g != &f) FAIL("xtl::has_value(temporary optional of references) does not designate the flag"); }
    { P x(61); auto p = xtl::closure_pointer(x); if (&*p != &x || p.operator->() != &x) FAIL("closure_pointer(lvalue) does not point at the original object");
      P* t = new P(62); auto q = xtl::closure_pointer(std::move(*t)); delete t; if ((*q).v != 62) FAIL("closure_pointer(rvalue) does not own a copy"); }
    return 0;
}
