"""Generator of the C03 contract header (one text per block width).  The contract text is the same for the owning
bitset (K = bsb, storage = std::vector model) and for the view (K = bvb, storage = tcb::span over caller memory); only the
path to the block pointer / block count differs, so it is written once here and expanded for both."""

HEAD = r'''
/* C03 contracts.  Abstract view: n = m_size, bit[g] = (block[g / W] >> (g % W)) & 1.
   wf: block count == ceil(n / W); the block array is a fresh object of EXACTLY that many blocks (any access outside the
   blocks fails a pointer obligation, and the frame object_whole(blocks) says that memory outside the blocks is untouched);
   the bits >= n of the last block are zero (TAILZ).
   Ghosts: xv_g arbitrary bit index (a statement about bit xv_g is a statement about every bit).
   Let-bound ghost scalars (guarded reads at function entry; total definitions, they exclude no state):
     xv_a0 = old bit g, xv_a1 = old block g/W (shifts: first source block), xv_a2 = rhs block / second source block,
     xv_a3 = old bit at the shifted position.
   xv_a4 = XV_FILL_OFF: container index at which the range of a std::fill/fill_n starts (0 except in >>=).
   xv_m: witness block index written by RET hooks (existential results of all/any/==).  */
#define ONES ((xv_blk)~(xv_blk)0)
#define CEILW(n) (((n) + XV_W - 1) / XV_W)
#define XV_MAXBITS (XV_MAXBLK * XV_W)
#define GBLK (xv_g / XV_W)
#define GOFF (xv_g % XV_W)
#define RET_SELF __CPROVER_ensures(__CPROVER_return_value == self)
#define RV __CPROVER_return_value
#define OBJ(s) __CPROVER_is_fresh(s, sizeof(*(s)))
/* shift proofs are split into one verifier run per value of pos % W (the union of the cases is every pos) */
#ifdef XV_CASE_R
#define XV_CASE_REQ __CPROVER_requires(pos % XV_W == XV_CASE_R)
#else
#define XV_CASE_REQ
#endif
'''


def base(K, D, N, S, others):
    """contracts of xdynamic_bitset_base<...>; others = [(R, RD, RT)] kinds usable as right operand"""
    def d(s): return D % s
    def n(s): return N % s
    o = []
    A = o.append
    A('#define VALID_%s(s) ((s)->m_size <= XV_MAXBITS && %s == CEILW((s)->m_size) && __CPROVER_is_fresh(%s, %s * sizeof(xv_blk)))' % (K, n('(s)'), d('(s)'), n('(s)')))
    A('#define TAILZ_%s(s) ((s)->m_size %% XV_W == 0 || (%s[%s - 1] >> ((s)->m_size %% XV_W)) == 0)' % (K, d('(s)'), n('(s)')))
    A('#define WF_%s(s) (VALID_%s(s) && TAILZ_%s(s))' % (K, K, K))
    A('#define BIT_%s(s, k) (((unsigned long)%s[(k) / XV_W] >> ((k) %% XV_W)) & 1)' % (K, d('(s)')))
    A('#define SAME_SHAPE_%s(s) ((s)->m_size == __CPROVER_old((s)->m_size) && %s == __CPROVER_old(%s) && %s == __CPROVER_old(%s))' % (K, n('(s)'), n('(s)'), d('(s)'), d('(s)')))
    A('#define POST_WF_%s(s) (%s == CEILW((s)->m_size) && TAILZ_%s(s))' % (K, n('(s)'), K))
    A('#define LET_OLD_%s(s) __CPROVER_requires(xv_g < (s)->m_size ==> (xv_a0 == BIT_%s(s, xv_g) && xv_a1 == %s[GBLK]))' % (K, K, d('(s)')))
    A('#define FRAME_%s __CPROVER_assigns(__CPROVER_object_whole(%s))' % (K, d('(self)')))
    A('#define KEEP_%s __CPROVER_ensures(SAME_SHAPE_%s(self) && POST_WF_%s(self))' % (K, K, K))
    Ds, Ns = d('(self)'), n('(self)')

    def C(name, text):
        A('#define XV_CONTRACT_%s__%s \\\n  %s' % (K, name, ' \\\n  '.join(text)))

    def L(name, k, text):
        A('#define XV_LOOP_%s__%s_%d \\\n  %s' % (K, name, k, ' \\\n  '.join(text)))

    def G(kind, name, k, text):
        A('#define XV_GHOST_%s_%s__%s_%d %s' % (kind, K, name, k, text))

    # ---- observers
    for nm, val in (('size__v_c', 'self->m_size'), ('empty__v_c', '(self->m_size == 0)'), ('block_count__v_c', 'CEILW(self->m_size)'),
                    ('data__v_c', Ds), ('data__v', Ds)):
        C(nm, ['__CPROVER_requires(OBJ(self) && WF_%s(self))' % K, '__CPROVER_ensures(RV == %s)' % val, '__CPROVER_assigns()'])
    # ---- canonical last block
    C('zero_unused_bits__v', ['__CPROVER_requires(OBJ(self) && VALID_%s(self)) LET_OLD_%s(self)' % (K, K),
                              '__CPROVER_ensures(SAME_SHAPE_%s(self) && TAILZ_%s(self))' % (K, K),
                              '__CPROVER_ensures(xv_g < self->m_size ==> BIT_%s(self, xv_g) == xv_a0)' % K, 'FRAME_%s' % K])
    # ---- whole-sequence updates
    C('set__v', ['__CPROVER_requires(OBJ(self) && WF_%s(self) && xv_a4 == 0)' % K, 'KEEP_%s' % K,
                 '__CPROVER_ensures(xv_g < self->m_size ==> BIT_%s(self, xv_g) == 1) RET_SELF FRAME_%s' % (K, K)])
    C('reset__v', ['__CPROVER_requires(OBJ(self) && WF_%s(self) && xv_a4 == 0)' % K, 'KEEP_%s' % K,
                   '__CPROVER_ensures(xv_g < self->m_size ==> BIT_%s(self, xv_g) == 0) RET_SELF FRAME_%s' % (K, K)])
    C('flip__v', ['__CPROVER_requires(OBJ(self) && WF_%s(self)) LET_OLD_%s(self)' % (K, K), 'KEEP_%s' % K,
                  '__CPROVER_ensures(xv_g < self->m_size ==> BIT_%s(self, xv_g) == !xv_a0) RET_SELF FRAME_%s' % (K, K)])
    L('flip__v', 1, ['__CPROVER_assigns(i, __CPROVER_object_whole(%s))' % Ds,
                     '__CPROVER_loop_invariant(i <= size && size == %s)' % Ns,
                     '__CPROVER_loop_invariant((xv_g < self->m_size && GBLK < i) ==> %s[GBLK] == (xv_blk)~(xv_blk)xv_a1)' % Ds,
                     '__CPROVER_loop_invariant((xv_g < self->m_size && GBLK >= i) ==> %s[GBLK] == (xv_blk)xv_a1)' % Ds,
                     '__CPROVER_decreases(size - i)'])
    # ---- single bit updates: precondition pos < size(), as for std::vector<bool>::operator[]
    for nm, val in (('set__ul_b', '(unsigned long)value'), ('reset__ul', '0'), ('flip__ul', '!xv_a0')):
        C(nm, ['__CPROVER_requires(OBJ(self) && WF_%s(self) && pos < self->m_size) LET_OLD_%s(self)' % (K, K), 'KEEP_%s' % K,
               '__CPROVER_ensures(xv_g < self->m_size ==> BIT_%s(self, xv_g) == (xv_g == pos ? %s : xv_a0)) RET_SELF FRAME_%s' % (K, val, K)])
    # ---- shifts (every amount in size_t)
    A('#define SH_DIV (pos / XV_W)')
    A('#define SH_R (pos % XV_W)')
    C('op_shl_assign__ul', [
        '__CPROVER_requires(OBJ(self) && WF_%s(self) && xv_a4 == 0) XV_CASE_REQ' % K,
        '__CPROVER_requires((xv_g < self->m_size && xv_g >= pos) ==> xv_a3 == BIT_%s(self, xv_g - pos))' % K,
        '__CPROVER_requires((xv_g < self->m_size && GBLK >= SH_DIV) ==> xv_a1 == %s[GBLK - SH_DIV])' % Ds,
        '__CPROVER_requires((xv_g < self->m_size && GBLK >= SH_DIV + 1) ==> xv_a2 == %s[GBLK - SH_DIV - 1])' % Ds,
        'KEEP_%s' % K,
        '__CPROVER_ensures(xv_g < self->m_size ==> BIT_%s(self, xv_g) == (xv_g >= pos ? xv_a3 : 0)) RET_SELF FRAME_%s' % (K, K)])
    shl_inv = ['__CPROVER_assigns(i, __CPROVER_object_whole(b))',
               '__CPROVER_loop_invariant(b == %s && i <= last - div && last == %s - 1 && div == SH_DIV && div <= last && r == SH_R)' % (Ds, Ns),
               '/* source blocks not yet overwritten: writes so far went to indices > i + div */',
               '__CPROVER_loop_invariant((xv_g < self->m_size && GBLK >= div && GBLK - div <= i + div) ==> b[GBLK - div] == (xv_blk)xv_a1)',
               '__CPROVER_loop_invariant((xv_g < self->m_size && GBLK >= div + 1 && GBLK - div - 1 <= i + div) ==> b[GBLK - div - 1] == (xv_blk)xv_a2)']
    L('op_shl_assign__ul', 1, shl_inv + ['__CPROVER_loop_invariant(rs == XV_W - r && r != 0)',
        '__CPROVER_loop_invariant((xv_g < self->m_size && GBLK > i + div) ==> b[GBLK] == (xv_blk)(((unsigned long)(xv_blk)xv_a1 << r) | ((unsigned long)(xv_blk)xv_a2 >> rs)))',
        '__CPROVER_decreases(i)'])
    L('op_shl_assign__ul', 2, shl_inv + ['__CPROVER_loop_invariant(r == 0)',
        '__CPROVER_loop_invariant((xv_g < self->m_size && GBLK > i + div) ==> b[GBLK] == (xv_blk)xv_a1)', '__CPROVER_decreases(i)'])
    C('op_shr_assign__ul', [
        '__CPROVER_requires(OBJ(self) && WF_%s(self)) XV_CASE_REQ' % K,
        '/* zero fill of the vacated top blocks starts at block count - div (whole-buffer reset when pos >= size) */',
        '__CPROVER_requires(xv_a4 == (pos >= self->m_size ? 0 : %s - SH_DIV))' % Ns,
        '__CPROVER_requires((xv_g < self->m_size && pos < self->m_size && xv_g < self->m_size - pos) ==> xv_a3 == BIT_%s(self, xv_g + pos))' % K,
        '__CPROVER_requires((xv_g < self->m_size && pos < self->m_size && GBLK + SH_DIV < %s) ==> xv_a1 == %s[GBLK + SH_DIV])' % (Ns, Ds),
        '__CPROVER_requires((xv_g < self->m_size && pos < self->m_size && GBLK + SH_DIV + 1 < %s) ==> xv_a2 == %s[GBLK + SH_DIV + 1])' % (Ns, Ds),
        'KEEP_%s' % K,
        '__CPROVER_ensures(xv_g < self->m_size ==> BIT_%s(self, xv_g) == ((pos < self->m_size && xv_g < self->m_size - pos) ? xv_a3 : 0)) RET_SELF FRAME_%s' % (K, K)])
    shr_inv = ['__CPROVER_assigns(i, __CPROVER_object_whole(b))',
               '__CPROVER_loop_invariant(b == %s && div <= i && last == %s - 1 && div == SH_DIV && div <= last && r == SH_R)' % (Ds, Ns),
               '/* source blocks not yet overwritten: writes so far went to indices < i - div */',
               '__CPROVER_loop_invariant((xv_g < self->m_size && GBLK + div <= last && GBLK + div >= i - div) ==> b[GBLK + div] == (xv_blk)xv_a1)',
               '__CPROVER_loop_invariant((xv_g < self->m_size && GBLK + div + 1 <= last && GBLK + div + 1 >= i - div) ==> b[GBLK + div + 1] == (xv_blk)xv_a2)',
               '/* the last block keeps its zero tail until it is written */',
               '__CPROVER_loop_invariant((last >= i - div) ==> (self->m_size % XV_W == 0 || (b[last] >> (self->m_size % XV_W)) == 0))']
    L('op_shr_assign__ul', 1, shr_inv + ['__CPROVER_loop_invariant(ls == XV_W - r && r != 0 && i <= last)',
        '__CPROVER_loop_invariant((xv_g < self->m_size && GBLK + div < i) ==> b[GBLK] == (xv_blk)(((unsigned long)(xv_blk)xv_a1 >> r) | ((unsigned long)(xv_blk)xv_a2 << ls)))',
        '__CPROVER_decreases(last - i)'])
    L('op_shr_assign__ul', 2, shr_inv + ['__CPROVER_loop_invariant(r == 0 && i <= last + 1)',
        '__CPROVER_loop_invariant((xv_g < self->m_size && GBLK + div < i) ==> b[GBLK] == (xv_blk)xv_a1)', '__CPROVER_decreases(last + 1 - i)'])
    # ---- blockwise combination with a bitset of equal size (precondition; no std::vector<bool> counterpart resizes)
    for (R, RD, RT) in others:
        rd = RD % '(rhs)'
        for opn, opc in (('and', '&'), ('or', '|'), ('xor', '^')):
            nm = 'op_%s_assign__T_%s__r%s' % (opn, RT, R)
            C(nm, ['__CPROVER_requires(OBJ(self) && OBJ(rhs) && WF_%s(self) && WF_%s(rhs) && rhs->m_size == self->m_size) LET_OLD_%s(self)' % (K, R, K),
                   '__CPROVER_requires(xv_g < self->m_size ==> xv_a2 == %s[GBLK])' % rd, 'KEEP_%s' % K,
                   '__CPROVER_ensures(xv_g < self->m_size ==> BIT_%s(self, xv_g) == (xv_a0 %s (((unsigned long)xv_a2 >> GOFF) & 1))) RET_SELF FRAME_%s' % (K, opc, K)])
            L(nm, 1, ['__CPROVER_assigns(i, __CPROVER_object_whole(%s))' % Ds,
                      '__CPROVER_loop_invariant(i <= size && size == %s)' % Ns,
                      '__CPROVER_loop_invariant((xv_g < self->m_size && GBLK < i) ==> %s[GBLK] == (xv_blk)((xv_blk)xv_a1 %s (xv_blk)xv_a2))' % (Ds, opc),
                      '__CPROVER_loop_invariant((xv_g < self->m_size && GBLK >= i) ==> %s[GBLK] == (xv_blk)xv_a1)' % Ds,
                      '__CPROVER_loop_invariant(self->m_size %% XV_W == 0 || (%s[%s - 1] >> (self->m_size %% XV_W)) == 0)' % (Ds, Ns),
                      '__CPROVER_decreases(size - i)'])
        # ---- equality: sizes equal and every bit equal; witness block for the negative answer
        nm = 'op_eq__T_%s__r%s_c' % (RT, R)
        G('RET', nm, 1, '(xv_m = 0)')
        G('RET', nm, 2, '(xv_m = i)')
        C(nm, ['__CPROVER_requires(OBJ(self) && OBJ(rhs) && WF_%s(self) && WF_%s(rhs))' % (K, R),
               '__CPROVER_ensures(RV ==> (self->m_size == rhs->m_size && (xv_g < self->m_size ==> BIT_%s(self, xv_g) == BIT_%s(rhs, xv_g))))' % (K, R),
               '__CPROVER_ensures(!RV ==> (self->m_size != rhs->m_size || (xv_m < %s && %s[xv_m] != %s[xv_m])))' % (Ns, Ds, rd),
               '__CPROVER_assigns(xv_m)'])
        L(nm, 1, ['__CPROVER_assigns(i)', '__CPROVER_loop_invariant(i <= n_blocks && n_blocks == %s && self->m_size == rhs->m_size)' % Ns,
                  '__CPROVER_loop_invariant((xv_g < self->m_size && GBLK < i) ==> %s[GBLK] == %s[GBLK])' % (Ds, rd),
                  '__CPROVER_decreases(n_blocks - i)'])
    # ---- all / any / none / count
    G('RET', 'all__v_c', 1, '(xv_m = 0)')
    G('RET', 'all__v_c', 2, '(xv_m = i)')
    G('RET', 'all__v_c', 3, '(xv_m = %s - 1)' % Ns)
    C('all__v_c', ['__CPROVER_requires(OBJ(self) && WF_%s(self))' % K,
                   '__CPROVER_ensures(RV ==> (xv_g < self->m_size ==> BIT_%s(self, xv_g) == 1))' % K,
                   '/* negative answer: witness block xv_m that is not all ones on its valid bits */',
                   '__CPROVER_ensures(!RV ==> (xv_m < %s && %s[xv_m] != ((xv_m == %s - 1 && self->m_size %% XV_W != 0) ? (xv_blk)~(ONES << (self->m_size %% XV_W)) : ONES)))' % (Ns, Ds, Ns),
                   '__CPROVER_assigns(xv_m)'])
    L('all__v_c', 1, ['__CPROVER_assigns(i)', '__CPROVER_loop_invariant(i <= size && size == (extra_bits != 0 ? %s - 1 : %s) && extra_bits == self->m_size %% XV_W)' % (Ns, Ns),
                      '__CPROVER_loop_invariant((xv_g < self->m_size && GBLK < i) ==> %s[GBLK] == ONES)' % Ds, '__CPROVER_decreases(size - i)'])
    G('RET', 'any__v_c', 1, '(xv_m = i)')
    C('any__v_c', ['__CPROVER_requires(OBJ(self) && WF_%s(self))' % K,
                   '__CPROVER_ensures(!RV ==> (xv_g < self->m_size ==> BIT_%s(self, xv_g) == 0))' % K,
                   '/* positive answer: witness block with a set bit (a valid bit, since the tail of the last block is zero) */',
                   '__CPROVER_ensures(RV ==> (xv_m < %s && %s[xv_m] != 0))' % (Ns, Ds), '__CPROVER_assigns(xv_m)'])
    L('any__v_c', 1, ['__CPROVER_assigns(i)', '__CPROVER_loop_invariant(i <= size && size == %s)' % Ns,
                      '__CPROVER_loop_invariant((xv_g < self->m_size && GBLK < i) ==> %s[GBLK] == 0)' % Ds, '__CPROVER_decreases(size - i)'])
    # count: ghost accumulator of per-byte population counts (independent bit-sum formula, not the table)
    A('#define POP8(x) ((((x) >> 0) & 1) + (((x) >> 1) & 1) + (((x) >> 2) & 1) + (((x) >> 3) & 1) + (((x) >> 4) & 1) + (((x) >> 5) & 1) + (((x) >> 6) & 1) + (((x) >> 7) & 1))')
    G('BEFORE', 'count__v_c', 1, '(xv_a7 = 0)')
    G('BODY', 'count__v_c', 1, '(xv_a7 += POP8((unsigned long)*p))')
    C('count__v_c', ['__CPROVER_requires(OBJ(self) && WF_%s(self))' % K,
                     '/* result == sum over all bytes of the block array of their population count (ghost xv_a7); with TAILZ that is the number of set valid bits */',
                     '__CPROVER_ensures(RV == xv_a7 && RV <= %s * XV_W)' % Ns, '__CPROVER_assigns(xv_a7)'])
    L('count__v_c', 1, ['__CPROVER_assigns(i, p, res, xv_a7)',
                        '__CPROVER_loop_invariant(i <= length && length == %s * sizeof(xv_blk) && __CPROVER_same_object(p, %s) && (unsigned long)__CPROVER_POINTER_OFFSET(p) == i)' % (Ns, Ds),
                        '__CPROVER_loop_invariant(res == xv_a7 && res <= 8 * i)', '__CPROVER_decreases(length - i)'])
    # ---- element access: reference proxy designates exactly (block i/W, mask 1 << i%W)
    for nm, pre in (('op_index__ul', 'i < self->m_size'), ('op_index__ul_c', 'i < self->m_size')):
        C(nm, ['__CPROVER_requires(OBJ(self) && WF_%s(self) && %s)' % (K, pre),
               '__CPROVER_ensures(RV.m_block == &%s[i / XV_W] && RV.m_mask == (xv_blk)((xv_blk)1 << (i %% XV_W)))' % Ds, '__CPROVER_assigns()'])
    for nm in ('at__ul', 'at__ul_c'):
        C(nm, ['__CPROVER_requires(OBJ(self) && WF_%s(self) && xv_exc == 0)' % K,
               '__CPROVER_ensures((xv_exc == XV_EXC_out_of_range) == (i >= self->m_size))', '__CPROVER_ensures(xv_exc == 0 || xv_exc == XV_EXC_out_of_range)',
               '__CPROVER_ensures(xv_exc == 0 ==> (RV.m_block == &%s[i / XV_W] && RV.m_mask == (xv_blk)((xv_blk)1 << (i %% XV_W))))' % Ds,
               '__CPROVER_assigns(xv_exc)'])
    for nm, idx in (('front__v', '0'), ('front__v_c', '0'), ('back__v', '(self->m_size - 1)'), ('back__v_c', '(self->m_size - 1)')):
        C(nm, ['__CPROVER_requires(OBJ(self) && WF_%s(self) && self->m_size > 0)' % K,
               '__CPROVER_ensures(RV.m_block == &%s[%s / XV_W] && RV.m_mask == (xv_blk)((xv_blk)1 << (%s %% XV_W)))' % (Ds, idx, idx), '__CPROVER_assigns()'])
    return '\n'.join(o) + '\n'


def refs(R):
    """xbitset_reference<...>: (m_block, m_mask) designates one bit of one block"""
    o = []
    pre = '__CPROVER_requires(__CPROVER_is_fresh(self, sizeof(*self)) && __CPROVER_is_fresh(self->m_block, sizeof(xv_blk)) && xv_k < XV_W && self->m_mask == (xv_blk)((xv_blk)1 << xv_k))'
    old = '__CPROVER_old(*self->m_block)'
    def C(name, post, assigns='*self->m_block', ret_self=True):
        o.append('#define XV_CONTRACT_%s__%s \\\n  %s \\\n  __CPROVER_ensures(%s) %s__CPROVER_assigns(%s)' % (
            R, name, pre, post, 'RET_SELF ' if ret_self else '', assigns))
    C('conv_b__v_c', 'RV == ((*self->m_block & self->m_mask) != 0)', '', False)
    C('op_compl__v_c', 'RV == ((*self->m_block & self->m_mask) == 0)', '', False)
    if 'c' not in R[2:]:
        C('set__v', '*self->m_block == (xv_blk)(%s | self->m_mask)' % old, ret_self=False)
        C('reset__v', '*self->m_block == (xv_blk)(%s & ~self->m_mask)' % old, ret_self=False)
        C('flip__v', '*self->m_block == (xv_blk)(%s ^ self->m_mask)' % old)
        C('assign__b', '*self->m_block == (xv_blk)(rhs ? (%s | self->m_mask) : (%s & ~self->m_mask))' % (old, old), ret_self=False)
        C('op_assign__b', '*self->m_block == (xv_blk)(rhs ? (%s | self->m_mask) : (%s & ~self->m_mask))' % (old, old))
        C('op_and_assign__b', '*self->m_block == (xv_blk)(rhs ? %s : (%s & ~self->m_mask))' % (old, old))
        C('op_or_assign__b', '*self->m_block == (xv_blk)(rhs ? (%s | self->m_mask) : %s)' % (old, old))
        C('op_xor_assign__b', '*self->m_block == (xv_blk)(rhs ? (%s ^ self->m_mask) : %s)' % (old, old))
    return '\n'.join(o) + '\n'


def owner():
    """xdynamic_bitset<B>: operations that change the size (S_bs wraps S_bsb as __base_0)"""
    o = []
    B = '(&self->__base_0)'
    D, N = 'self->__base_0.m_buffer.data', 'self->__base_0.m_buffer.size'
    SZ = 'self->__base_0.m_size'
    NEWWF = '%s == CEILW(%s) && (%s %% XV_W == 0 || (%s[%s - 1] >> (%s %% XV_W)) == 0)' % (N, SZ, SZ, D, N, SZ)
    # callers (C11) need to know that the block array is a valid object afterwards: a new one, or the one it was
    FRESHD = '__CPROVER_is_fresh(%s, %s * sizeof(xv_blk))' % (D, N)
    # (pointer_in_range_dfcc with equal bounds is 'same pointer' in a form that keeps the verifier's points-to information when assumed)
    SAMEORFRESH = '(%s == __CPROVER_old(%s) ? __CPROVER_pointer_in_range_dfcc(__CPROVER_old(%s), %s, __CPROVER_old(%s)) : %s)' % (N, N, D, D, D, FRESHD)
    NEWWF_F = '%s == CEILW(%s) && %s && (%s %% XV_W == 0 || (%s[%s - 1] >> (%s %% XV_W)) == 0)' % (N, SZ, FRESHD, SZ, D, N, SZ)
    NEWWF_S = '%s == CEILW(%s) && %s && (%s %% XV_W == 0 || (%s[%s - 1] >> (%s %% XV_W)) == 0)' % (N, SZ, SAMEORFRESH, SZ, D, N, SZ)
    def C(name, text):
        o.append('#define XV_CONTRACT_bs__%s \\\n  %s' % (name, ' \\\n  '.join(text)))
    OWN = '__CPROVER_is_fresh(self, sizeof(*self)) && WF_bsb%s' % B   # WF_bsb includes freshness of the base == the object itself
    VAL = 'OBJ(self) && WF_bsb(%s)' % B
    LET = '__CPROVER_requires(xv_g < %s ==> xv_a0 == BIT_bsb(%s, xv_g))' % (SZ, B)
    FR = '__CPROVER_assigns(*self, __CPROVER_object_whole(%s))' % D
    C('ctor__ul_b_rxv_empty', ['__CPROVER_requires(__CPROVER_is_fresh(self, sizeof(*self)) && count <= XV_MAXBITS)',
                               '__CPROVER_ensures(%s == count && %s)' % (SZ, NEWWF_F),
                               '__CPROVER_ensures(xv_g < count ==> BIT_bsb(%s, xv_g) == (unsigned long)b)' % B, '__CPROVER_assigns(*self)'])
    C('ctor__ul_rxv_empty', ['__CPROVER_requires(__CPROVER_is_fresh(self, sizeof(*self)) && count <= XV_MAXBITS)',
                             '__CPROVER_ensures(%s == count && %s)' % (SZ, NEWWF),
                             '__CPROVER_ensures(xv_g < count ==> BIT_bsb(%s, xv_g) == 0)' % B, '__CPROVER_assigns(*self)'])
    C('ctor__v', ['__CPROVER_requires(__CPROVER_is_fresh(self, sizeof(*self)))', '__CPROVER_ensures(%s == 0 && %s == 0)' % (SZ, N), '__CPROVER_assigns(*self)'])
    C('resize__ul_b', ['__CPROVER_requires(%s && asize <= XV_MAXBITS) %s' % (VAL, LET),
                       '__CPROVER_ensures(%s == asize && %s)' % (SZ, NEWWF_S),
                       '/* existing bits preserved, new bits carry the given value */',
                       '__CPROVER_ensures(xv_g < asize ==> BIT_bsb(%s, xv_g) == (xv_g < __CPROVER_old(%s) ? xv_a0 : (unsigned long)b))' % (B, SZ), FR])
    C('push_back__b', ['__CPROVER_requires(%s && %s < XV_MAXBITS) %s' % (VAL, SZ, LET),
                       '__CPROVER_ensures(%s == __CPROVER_old(%s) + 1 && %s)' % (SZ, SZ, NEWWF),
                       '__CPROVER_ensures(xv_g < %s ==> BIT_bsb(%s, xv_g) == (xv_g < __CPROVER_old(%s) ? xv_a0 : (unsigned long)b))' % (SZ, B, SZ), FR])
    C('pop_back__v', ['__CPROVER_requires(%s && %s > 0) %s' % (VAL, SZ, LET),
                      '__CPROVER_ensures(%s == __CPROVER_old(%s) - 1 && %s)' % (SZ, SZ, NEWWF),
                      '__CPROVER_ensures(xv_g < %s ==> BIT_bsb(%s, xv_g) == xv_a0)' % (SZ, B), FR])
    C('clear__v', ['__CPROVER_requires(%s)' % VAL, '__CPROVER_ensures(%s == 0 && %s == 0)' % (SZ, N), FR])
    C('assign__ul_b', ['__CPROVER_requires(%s && count <= XV_MAXBITS && xv_a4 == 0)' % VAL,
                       '__CPROVER_ensures(%s == count && %s)' % (SZ, NEWWF),
                       '__CPROVER_ensures(xv_g < count ==> BIT_bsb(%s, xv_g) == (unsigned long)b)' % B, FR])
    # copy construction: same sequence, independent storage
    C('ctor__rbs', ['__CPROVER_requires(OBJ(self) && OBJ(rhs) && WF_bsb((&rhs->__base_0)))',
                    '__CPROVER_ensures(%s == rhs->__base_0.m_size && %s && %s != rhs->__base_0.m_buffer.data)' % (SZ, NEWWF, D),
                    '__CPROVER_ensures(xv_g < %s ==> BIT_bsb(%s, xv_g) == BIT_bsb((&rhs->__base_0), xv_g))' % (SZ, B), '__CPROVER_assigns(*self)'])
    C('ctor__T_bv__rbvb', ['__CPROVER_requires(OBJ(self) && OBJ(rhs) && WF_bvb(rhs))',
                           '__CPROVER_ensures(%s == rhs->m_size && %s)' % (SZ, NEWWF),
                           '__CPROVER_ensures(xv_g < %s ==> BIT_bsb(%s, xv_g) == BIT_bvb(rhs, xv_g))' % (SZ, B), '__CPROVER_assigns(*self)'])
    return '\n'.join(o) + '\n'


def wrappers():
    """free operators | & ^ ~ through one-line wrappers of the instantiation unit (library code inlined): the result is an OWNING bitset
    with the combined bits, the operands are unchanged and nothing visible to the caller is written (assigns() - a view operand's
    caller memory in particular)"""
    o = []
    def W(name, K, expr, binary=True):
        pre = 'OBJ(a) && WF_%s(a)' % K + ((' && OBJ(b) && WF_%s(b) && a->m_size == b->m_size' % K) if binary else '')
        D = {'bvb': lambda s: '%s->m_buffer.storage_.ptr' % s, 'bsb': lambda s: '%s->m_buffer.data' % s}[K]
        cl = ['__CPROVER_requires(%s)' % pre,
              '__CPROVER_requires(xv_g < a->m_size ==> (xv_a0 == BIT_%s(a, xv_g) && xv_a1 == %s[GBLK]))' % (K, D('a'))]
        if binary:
            cl.append('__CPROVER_requires(xv_g < a->m_size ==> (xv_a3 == BIT_%s(b, xv_g) && xv_a2 == %s[GBLK]))' % (K, D('b')))
        cl += ['__CPROVER_ensures(RV.__base_0.m_size == a->m_size && RV.__base_0.m_buffer.size == CEILW(a->m_size) && RV.__base_0.m_buffer.data != %s)' % D('a'),
               '__CPROVER_ensures(a->m_size % XV_W == 0 || (RV.__base_0.m_buffer.data[RV.__base_0.m_buffer.size - 1] >> (a->m_size % XV_W)) == 0)',
               '__CPROVER_ensures(xv_g < a->m_size ==> BIT_bsb((&RV.__base_0), xv_g) == (%s))' % expr,
               '__CPROVER_ensures(xv_g < a->m_size ==> BIT_%s(a, xv_g) == xv_a0)' % K,
               '__CPROVER_assigns()']
        o.append('#define XV_CONTRACT_w_%s \\\n  %s' % (name, ' \\\n  '.join(cl)))
    W('or_vv', 'bvb', 'xv_a0 | xv_a3')
    W('and_vv', 'bvb', 'xv_a0 & xv_a3')
    W('xor_vv', 'bvb', 'xv_a0 ^ xv_a3')
    W('or_ss', 'bsb', 'xv_a0 | xv_a3')
    W('not_v', 'bvb', 'xv_a0 ^ 1ul', binary=False)
    return '\n'.join(o) + '\n'


def view(S='unsigned_char'):
    """xdynamic_bitset_view<X> over caller memory"""
    PA = {'unsigned_char': 'puc', 'unsigned_short': 'pus', 'unsigned_int': 'pu', 'unsigned_long': 'pul'}[S]
    o = []
    B = '(&self->__base_0)'
    D, N, SZ = 'self->__base_0.m_buffer.storage_.ptr', 'self->__base_0.m_buffer.storage_.size', 'self->__base_0.m_size'
    o.append('#define XV_CONTRACT_bv__ctor__' + PA + '_ul \\\n'
             '  __CPROVER_requires(__CPROVER_is_fresh(self, sizeof(*self)) && size <= XV_MAXBITS && __CPROVER_is_fresh(ptr, CEILW(size) * sizeof(xv_blk))) \\\n'
             '  __CPROVER_requires(xv_g < size ==> xv_a0 == (((unsigned long)ptr[GBLK] >> GOFF) & 1)) \\\n'
             '  /* the view covers exactly the blocks of the caller; its valid bits are the caller\'s bits; the unused tail of the last block is zeroed */ \\\n'
             '  __CPROVER_ensures(%s == ptr && %s == CEILW(size) && %s == size && TAILZ_bvb(%s)) \\\n'
             '  __CPROVER_ensures(xv_g < size ==> BIT_bvb(%s, xv_g) == xv_a0) \\\n'
             '  __CPROVER_assigns(*self, __CPROVER_object_whole(ptr))' % (D, N, SZ, B, B))
    o.append('#define XV_CONTRACT_bv__resize__ul \\\n'
             '  __CPROVER_requires(__CPROVER_is_fresh(self, sizeof(*self)) && xv_exc == 0) \\\n'
             '  __CPROVER_ensures((xv_exc == XV_EXC_runtime_error) == (sz != %s)) __CPROVER_ensures(xv_exc == 0 || xv_exc == XV_EXC_runtime_error) \\\n'
             '  __CPROVER_assigns(xv_exc)' % SZ)
    return '\n'.join(o) + '\n'


def generate(S='unsigned_char'):
    DV, NV = '%s->m_buffer.data', '%s->m_buffer.size'
    DS, NS = '%s->m_buffer.storage_.ptr', '%s->m_buffer.storage_.size'
    t = HEAD
    # macros of both kinds first (contracts of one kind mention WF/BIT of the other)
    t += base('bsb', DV, NV, S, [('bsb', DV, 'bs'), ('bvb', DS, 'bv')])
    t += base('bvb', DS, NS, S, [('bvb', DS, 'bv')])
    t += refs('bsref') + refs('bscref') + refs('bvref') + refs('bvcref')
    t += owner() + view(S)
    return t
