"""C15: cmp_* compare integers by mathematical value for every pair of integer types."""
import os, re
from xv.unit import Unit
from xv.driver import Job
from xv.prop import native_run
from xv.xtl2c import dq

PROP = 'C15'
TYPES_QUICK = ['signed char', 'short', 'int', 'long', 'unsigned char', 'unsigned short', 'unsigned int', 'unsigned long']
TYPES_MORE = ['char', 'long long', 'unsigned long long']
FUNCS = {'cmp_equal': '==', 'cmp_not_equal': '!=', 'cmp_less': '<', 'cmp_greater': '>', 'cmp_less_equal': '<=', 'cmp_greater_equal': '>='}


def inst_text(types):
    out = ['#include <xtl/xcompare.hpp>']
    for f in FUNCS:
        for t in types:
            for u in types:
                out.append('template bool xtl::%s<%s, %s>(%s, %s);' % (f, t, u, t, u))
    # supporting static fact: usable in constant expressions
    # (the value is not asserted here: values are decided by the contracts; this only has to be a constant expression)
    for i, f in enumerate(FUNCS):
        out.append('constexpr bool xv_constexpr_use_%d = xtl::%s(-1, 1u) || xtl::%s((signed char)-128, 0ul);' % (i, f, f))
    return '\n'.join(out) + '\n'


def select(fn, q, lw):
    return q in ('xtl::' + f for f in FUNCS)


def gen_contracts(unit, lw, roots):
    out = ['/* generated: one contract per instantiated cmp_* function; the postcondition is the property statement:',
           '   the truth of the comparison of the two mathematical integers (__int128 holds every 64-bit value of either signedness) */']
    unit.pairs = {}
    for fn in roots:
        a = lw.cname(fn)
        ps = lw.params(fn)
        op = FUNCS[fn['name']]
        out.append('#define XV_CONTRACT_%s __CPROVER_ensures(__CPROVER_return_value == ((__int128)%s %s (__int128)%s)) __CPROVER_assigns()'
                   % (a, ps[0]['name'], op, ps[1]['name']))
        key = (dq(ps[0]['type']), dq(ps[1]['type']))
        unit.pairs.setdefault(key, {})[fn['name']] = a
    return '\n'.join(out) + '\n'


def build(tier, workdir, seed):
    types = TYPES_QUICK + (TYPES_MORE if tier == 'thorough' else [])
    u = Unit('cmp', inst_text(types), select, gen_contracts).lower(workdir)
    jobs = u.contract_jobs(PROP, timeout=300)
    # lemma per type pair, over the six contracts only: exactly one of less/equal/greater; derived ones agree
    lem = ['#include "cmp.c"']
    ljobs = []
    for (t, v), fs in sorted(u.pairs.items()):
        if len(fs) != 6:
            continue
        nm = 'lemma_%s__%s' % (re.sub(r'\W+', '_', t), re.sub(r'\W+', '_', v))
        ct, cv = u.lw.ctype(t), u.lw.ctype(v)
        lem.append('''void %s(void) { %s t; %s u;
  _Bool lt = %s(t,u), eq = %s(t,u), gt = %s(t,u), ne = %s(t,u), le = %s(t,u), ge = %s(t,u);
  __CPROVER_assert((lt + eq + gt) == 1, "exactly one of less, equal, greater");
  __CPROVER_assert(ne == !eq && le == (lt || eq) && ge == (gt || eq) && le == !gt && ge == !lt, "derived comparisons consistent");
  XV_CANARY(); }''' % (nm, ct, cv, fs['cmp_less'], fs['cmp_equal'], fs['cmp_greater'], fs['cmp_not_equal'], fs['cmp_less_equal'], fs['cmp_greater_equal']))
        ljobs.append((nm, sorted(fs.values())))
    lp = os.path.join(workdir, 'cmp_lemmas.c')
    open(lp, 'w').write('\n'.join(lem) + '\n')
    for nm, rep in ljobs:
        jobs.append(Job('cmp__' + nm, [lp], nm, enforce=None, replace=rep, loop_contracts=False, kind='lemma', prop=PROP, unit='cmp', timeout=300))
    return {'jobs': jobs, 'units': [u],
            'trusted_base': ['clang 14 template instantiation and overload/enable_if selection (the lowered functions are the instantiations clang produced)',
                             'xtl2c lowering rules (DESIGN.md 3.2)'],
            'assumptions': ['static_assert lines in the instantiation unit show constexpr usability (supporting static fact, compiled by clang on every run, not an obligation)'],
            'coverage_extra': {'type_pairs': len(u.pairs), 'types': types,
                               'explanation': 'every instantiated cmp_* function is checked against the __int128 comparison over its full argument domain (loop-free, bit-precise); callee cmp_* calls are replaced by their contracts'}}


def lit(v):
    v = int(v)
    if v < -(1 << 63) + 1:
        return '(-9223372036854775807LL - 1)'
    return '%dLL' % v if v < (1 << 63) else '%dULL' % v


def replay(ctx, job, ob, steps, base):
    u = ctx['units'][0]
    vals = {}
    for s in steps:
        if s.get('stepType') == 'assignment' and s.get('lhs') in ('in_t', 'in_u', 't', 'u') and 'data' in s.get('value', {}):
            vals.setdefault(s['lhs'], s['value']['data'])
    pair = None
    for (t, v), fs in u.pairs.items():
        if job.enforce in fs.values() or job.name.endswith('lemma_%s__%s' % (re.sub(r'\W+', '_', t), re.sub(r'\W+', '_', v))):
            pair = (t, v)
    if pair is None:
        return None
    tv = vals.get('in_t', vals.get('t'))
    uv = vals.get('in_u', vals.get('u'))
    if tv is None or uv is None:
        return None
    tv, uv = re.match(r'-?\d+', tv).group(0), re.match(r'-?\d+', uv).group(0)
    prog = '''#include <xtl/xcompare.hpp>
#include <cstdio>
int main() { %s t = (%s)(%s); %s u = (%s)(%s); __int128 a = t, b = u; int bad = 0;
#define CK(f, op) { bool r = xtl::f(t, u); bool e = (a op b); if (r != e) { std::printf(#f "(%%lld, %%llu as given types) = %%d, mathematical comparison gives %%d\\n", (long long)t, (unsigned long long)u, (int)r, (int)e); bad = 1; } }
 CK(cmp_equal, ==) CK(cmp_not_equal, !=) CK(cmp_less, <) CK(cmp_greater, >) CK(cmp_less_equal, <=) CK(cmp_greater_equal, >=)
 return bad; }
''' % (pair[0], pair[0], lit(tv), pair[1], pair[1], lit(uv))
    rc, out = native_run(prog, base)
    return (rc == 1, 'types (%s, %s), t=%s u=%s\n%s\nprogram: %s.cpp' % (pair[0], pair[1], tv, uv, out, base))
