"""C01/C02: xbasic_fixed_string behaves as a bounded std::string; stays inside its buffer; failed operations change nothing."""
import os, re
from xv.unit import Unit
from xv.driver import Job, VERIF
from xv.prop import native_run

PROP = 'C01'
CONFIGS = {
    # name: (C++ type, capacity, layout)
    'p7': ('xtl::xbasic_fixed_string<char, 7, xtl::buffer | xtl::store_size, xtl::string_policy::throwing_error>', 7, 'packed'),
    's300': ('xtl::xbasic_fixed_string<char, 300, xtl::buffer | xtl::store_size, xtl::string_policy::throwing_error>', 300, 'sizefield'),
    'p255': ('xtl::xbasic_fixed_string<char, 255, xtl::buffer | xtl::store_size, xtl::string_policy::throwing_error>', 255, 'packed'),
    's256': ('xtl::xbasic_fixed_string<char, 256, xtl::buffer | xtl::store_size, xtl::string_policy::throwing_error>', 256, 'sizefield'),
    'z7': ('xtl::xbasic_fixed_string<char, 7, xtl::buffer, xtl::string_policy::throwing_error>', 7, 'strlen'),
    'z16': ('xtl::xbasic_fixed_string<char, 16, xtl::buffer, xtl::string_policy::throwing_error>', 16, 'strlen'),
}


def inst(cfg):
    ty = CONFIGS[cfg][0]
    return '''#include <xtl/xbasic_fixed_string.hpp>
using FS = %s;
template class %s;
// defaulted position arguments: called WITHOUT a position so that the declared default is what gets lowered
std::size_t dflt_find(const FS& str, char c) { return str.find(c); }
std::size_t dflt_rfind(const FS& str, char c) { return str.rfind(c); }
std::size_t dflt_find_first_of(const FS& str, char c) { return str.find_first_of(c); }
std::size_t dflt_find_last_of(const FS& str, char c) { return str.find_last_of(c); }
std::size_t dflt_find_first_not_of(const FS& str, char c) { return str.find_first_not_of(c); }
std::size_t dflt_find_last_not_of(const FS& str, char c) { return str.find_last_not_of(c); }
''' % (ty, ty)


def select(fn, q, lw):
    from xv.xtl2c import dq
    sig = fn['type']['qualType'] + ' ' + ' '.join(dq(p['type']) for p in lw.params(fn))
    if any(k in sig for k in ('initializer_list', 'initializer_type', 'basic_ostream', 'basic_istream', 'reverse_iterator')) or fn.get('name', '').startswith('operator basic_string'):
        return False          # listed as not under contract
    if fn.get('isImplicit') or fn.get('explicitlyDefaulted'):
        return False          # compiler-generated member-wise copies
    return q.startswith('xtl::xbasic_fixed_string::') or q.startswith('xtl::detail::fixed_')


def opaque(fn, q, lw):
    """overloads taking initializer_list / streams and the conversion to std::string are declared but not lowered (not under contract)"""
    from xv.xtl2c import dq
    sig = fn['type']['qualType'] + ' ' + ' '.join(dq(p['type']) for p in lw.params(fn))
    return q.startswith('xtl::') and (any(k in sig for k in ('initializer_list', 'initializer_type', 'basic_ostream', 'basic_istream')) or fn.get('name', '').startswith('operator basic_string'))


def m_is_counted(fn, lw):
    return True


class SearchUnit(Unit):
    """roots include the default-argument wrappers defined in the instantiation unit itself"""
    unit_roots = True


REC_ALIAS = [(r'xtl::xbasic_fixed_string<.*>', 'fs'), (r'xtl::detail::fixed_\w+<.*>', 'sto'), (r'xtl::string_policy::throwing_error<.*>', 'pol')]


def build(tier, workdir, seed, prop=PROP):
    from props import C01_contracts
    units, jobs = [], []
    cfgs = ['p7', 'p255', 's256', 'z7']
    heavy = tier == 'thorough' or os.environ.get('XV_FS_HEAVY') is not None
    HEAVY = ('append', 'erase', 'insert', 'replace', 'resize', 'compare__ul_ul_rfs')      # copy loops over a 257-element member array: see DESIGN.md (C01 reach)
    for cfg in cfgs:
        n, layout = CONFIGS[cfg][1], CONFIGS[cfg][2]
        ctext = ('#define XV_PROP_C02 1\n' if prop == 'C02' else '') + C01_contracts.generate(n, layout) + C01_contracts.generate_more(n, layout)
        u = Unit('fs_' + cfg, inst(cfg), select, ctext, REC_ALIAS, defines=['NDEBUG'], opaque=[opaque], partial=True).lower(workdir)
        units.append(u)
        # the forwarding overloads (generate_more) run on the small packed configuration in the quick tier, on every size-storing configuration in the thorough one
        more = set(re.findall(r'#define XV_CONTRACT_(\w+)', C01_contracts.generate_more(n, layout)))
        todo = [c for c in u.contracts if c in u.lw.loops and not (cfg not in ('p7', 'z7') and not heavy and (c in more or any(('fs__' + h) in c for h in HEAVY)))
                and not (cfg == 'z7' and 'compare' in c)]
        # C-string overloads: the strlen loop of the model carries no contract and is unwound to the argument bound (4N characters + terminator)
        ex = {a: {'pre_unwind': 4 * n + 3} for a in C01_contracts.CSTR_ALIASES} if layout != 'strlen' else None
        jobs += u.contract_jobs(prop, aliases=todo, timeout=3600 if heavy else 900, inline_all=True, pre_unwind=(n + 3 if layout == 'strlen' else None), extra=ex)
        if cfg == 'p7':
            # search family: capacity-bounded proofs (all loops, including the char_traits model loops, unwound: bound = capacity + 3)
            sel_s = lambda fn, q, lw: (q.startswith('dflt_') and not lw.tu.in_repo(fn)) or (q.startswith('xtl::xbasic_fixed_string::') and re.match(r'r?find', fn.get('name', '')) and m_is_counted(fn, lw))
            us = SearchUnit('fs_p7s', inst(cfg), sel_s, C01_contracts.generate(n, layout) + C01_contracts.search_contracts(n), REC_ALIAS,
                            defines=['NDEBUG'], opaque=[opaque], partial=True, pre_defs='#define XV_CHR_EXACT 1\n').lower(workdir)
            units.append(us)
            todo_s = [c for c in us.contracts if c in us.lw.loops and (c.startswith('dflt_') or re.fullmatch(r'fs__(r?find\w*)__c_ul_c', c))]
            jobs += us.contract_jobs(prop, aliases=todo_s, timeout=900, inline_all=True, pre_unwind=n + 3)
    return {'jobs': jobs, 'units': units,
            'trusted_base': sorted(set(sum([list(u.std.used) for u in units], []))) + ['clang 14 AST; xtl2c lowering rules (DESIGN.md 3.2)',
                'std::char_traits / std::copy / std::copy_backward model in model/xv_chr.h: C with loop contracts discharged in place (search proofs: exact, unwound to capacity + 3)'],
            'assumptions': ['configurations: char; packed layout N=7 (all functions under contract) and N=255 (storage class + light functions; copy-loop functions in the thorough tier), size-field layout N=256 (same split); throwing policy; NDEBUG as in the test build',
                            'the strlen-sized (numpy) layout is under contract for N=7 (configuration z7: size() == position of the first NUL, characters written must be non-NUL, every loop unwound to the capacity); wchar_t/char16_t, the silent policy and the initializer_list overloads are NOT under contract (listed in not_reached); the forwarding overloads (std::string, fixed-string, iterator-range, C-string sources, iterator positions) are under contract on the small packed configuration (N=7) in the quick tier, C strings of up to 4N characters',
                            'N is a compile-time constant: "every N" is covered by the boundary capacities where the layout selection flips (255 / 256) and a small one',
                            'counted-needle search overloads are not under contract (nested unwinding did not finish); the character overloads with explicit and with DEFAULTED position are, for capacity 7, by complete unwinding',
                            'histories: every operation is proved from an arbitrary wf state (any length 0..N, any bytes incl. stale bytes after the terminator), induction over the history is the meta-argument',
                            'precondition taken from the property: size() + count does not overflow size_t; counts of fresh argument ranges bounded by 4N'],
            'coverage_extra': {'configs': cfgs, 'heavy_functions_in_this_tier': bool(heavy),
                               'not_reached': ['strlen-sized layout for capacities other than 7; compare() and the forwarding overloads in that layout', 'silent_error policy', 'char16_t / wchar_t', 'initializer_list overloads; the conversion to std::string; constructors other than through assign',
                                               'forwarding overloads (std::string / fixed-string / iterator / C-string sources) at N=255/256 in the quick tier', 'operator+ family, stream operators, getline', 'find/rfind/find_*_of with a counted needle, a C string or a std::string']}}


SAN = ['-fsanitize=address,undefined', '-fno-sanitize-recover=all', '-O1', '-DNDEBUG']


def replay(ctx, job, ob, steps, base):
    """replay search on the real header: random operation histories against std::string ending with the suspicious operation"""
    cap = 256 if 's256' in job.name else 255 if 'p255' in job.name else 7
    op = re.sub(r'^(fs|sto|pol)__', '', job.enforce or '')
    src = open(os.path.join(VERIF, 'props', 'C01_replay.cpp')).read()
    seed = int(os.environ.get('VERIF_SEED', '0') or 0)
    outs = []
    for opname in (op, ''):
        prog = ('#define XV_ZLAYOUT 1\n' if 'fs_z7' in job.name else '') + '#define CAP %d\n#define XV_OP "%s"\n#define SEED %du\n' % (cap, opname, seed) + src
        rc, out = native_run(prog, base, extra=SAN)
        outs.append('search ending with operation "%s": rc=%s\n%s' % (opname or 'any', rc, (out or '')[-1500:]))
        if rc not in (0, None):
            return (True, '\n'.join(outs) + '\nprogram: %s.cpp' % base)
    return (False, '\n'.join(outs))
