"""C10: xcomplex arithmetic is complex arithmetic; IEEE mode follows C99 Annex G."""
import os, re
from xv.unit import Unit
from xv.stdmodel import StdModel
from xv.driver import Job, VERIF
from xv.prop import native_run

PROP = 'C10'
# wrappers name one overload each; the library code they call is inlined into the proof of the wrapper's contract
INST = '''#include <xtl/xcomplex.hpp>
namespace xv_unit {
using CF = xtl::xcomplex<float, float, false>;      // value closure, naive arithmetic
using CT = xtl::xcomplex<float, float, true>;       // value closure, ieee_compliant
using RF = xtl::xcomplex<float&, float&, false>;    // reference closures
using RT = xtl::xcomplex<float&, float&, true>;
using KF = xtl::xcomplex<const float&, const float&, false>;
CT mul_t(const CT& a, const CT& b) { return a * b; }
CT div_t(const CT& a, const CT& b) { return a / b; }
CF mul_f(const CF& a, const CF& b) { return a * b; }
CF div_f(const CF& a, const CF& b) { return a / b; }
CF add_f(const CF& a, const CF& b) { return a + b; }
CF sub_f(const CF& a, const CF& b) { return a - b; }
CF neg_f(const CF& a) { return -a; }
bool eq_f(const CF& a, const CF& b) { return a == b; }
bool ne_f(const CF& a, const CF& b) { return a != b; }
CF mul_rf(const RF& a, const KF& b) { return a * b; }           // reference closures give the same result as values
CT mul_rt(const RT& a, const CT& b) { return a * b; }
CF add_rf(const RF& a, const KF& b) { return a + b; }
CF mul_sf(const CF& a, const float& s) { return a * s; }          // mixed real/complex forms
CF smul_f(const float& s, const CF& a) { return s * a; }
CF div_sf(const CF& a, const float& s) { return a / s; }
CF add_sf(const CF& a, const float& s) { return a + s; }
CF sub_sf(const CF& a, const float& s) { return a - s; }
CF sadd_f(const float& s, const CF& a) { return s + a; }
CF ssub_f(const float& s, const CF& a) { return s - a; }
CF sdiv_f(const float& s, const CF& a) { return s / a; }            // real / complex is the complex division of (s + 0i)
CT sdiv_t(const float& s, const CT& a) { return s / a; }            // ... with the Annex G treatment in ieee mode
CT div_st(const CT& a, const float& s) { return a / s; }
void muleq_f(CF& a, const CF& b) { a *= b; }
void muleq_r(RF& a, const CF& b) { a *= b; }                      // compound assignment through a reference closure writes the referents
void addeq_r(RF& a, const CF& b) { a += b; }
void diveq_t(CT& a, const CT& b) { a /= b; }
}
'''


class FpStd(StdModel):
    """<cmath> with CBMC's IEEE semantics (model/xv_fp.h)"""
    def function(self, callee, args, em, n):
        q = em.tu.qualname(callee)
        nm = q.split('::')[-1]
        if q == 'std::numeric_limits::infinity':
            self.used.add('std::numeric_limits<float>::infinity')
            return 'XV_INF_f'
        if not em.tu.in_repo(callee) and nm in ('isnan', 'isinf', 'isfinite', 'copysign', 'fabs', 'fmax', 'logb', 'scalbn', 'abs'):
            t = em.ctype(dq_type(args[0]))
            sfx = 'f' if t == 'float' else 'd'
            a = [em.rv_or_lv(x) for x in args]
            self.used.add('<cmath> %s: CBMC IEEE-754 semantics (model/xv_fp.h)' % nm)
            if nm in ('isnan', 'isinf', 'isfinite'):
                return 'XV_%s_%s(%s)' % ({'isnan': 'ISNAN', 'isinf': 'ISINF', 'isfinite': 'ISFIN'}[nm], sfx, a[0])
            if sfx != 'f':
                raise __import__('xv.xtl2c', fromlist=['Unsupported']).Unsupported('<cmath> %s on double' % nm)
            if nm == 'copysign':
                return 'copysignf(%s, %s)' % (a[0], a[1])
            if nm in ('fabs', 'abs'):
                return 'fabsf(%s)' % a[0]
            if nm == 'fmax':
                return 'fmaxf(%s, %s)' % (a[0], a[1])
            if nm == 'logb':
                return 'xv_logbf(%s)' % a[0]
            if nm == 'scalbn':
                return 'xv_scalbnf(%s, %s)' % (a[0], a[1])
        return super().function(callee, args, em, n)

    def type(self, t, em):
        if re.fullmatch(r'std::complex<float>', re.sub(r'\s+', ' ', t).strip()):
            self.used.add('std::complex<float> (struct {re, im}; constructor, real(), imag())')
            return 'xv_cplx_f'
        return super().type(t, em)

    def construct(self, tstr, n, target, args, em):
        from xv.xtl2c import strip_cv
        if self.type(strip_cv(tstr), em) == 'xv_cplx_f':
            if len(args) == 2:
                return '((%s)->re = %s, (%s)->im = %s)' % (target, em.rv_or_lv(args[0]), target, em.rv_or_lv(args[1]))
            if len(args) == 1 and self.type(strip_cv(dq_type(args[0])).rstrip('& '), em) == 'xv_cplx_f':
                return '(*%s = %s)' % (target, em.rv_or_lv(args[0]))
        return super().construct(tstr, n, target, args, em)

    def method(self, callee, objp, obj, args, em, n):
        own = self.owner(callee, em)
        if own == 'std::complex' and callee.get('name') in ('real', 'imag') and not args:
            return '((%s)->%s)' % (objp, 're' if callee.get('name') == 'real' else 'im')
        if own == 'std::numeric_limits' and callee.get('name') == 'infinity':
            self.used.add('std::numeric_limits<float>::infinity')
            return 'XV_INF_f'
        return super().method(callee, objp, obj, args, em, n)


def dq_type(x):
    from xv.xtl2c import dq
    return dq(x['type'])


def alias(fn, q):
    return 'w_' + fn.get('name') if q.startswith('xv_unit::') else None


def select(fn, q, lw):
    return q.startswith('xv_unit::')


class U(Unit):
    unit_roots = True


def build(tier, workdir, seed):
    ctext = open(os.path.join(VERIF, 'contracts', 'C10_cplx.h')).read()
    ra = [(r'xtl::xcomplex<float,float,false>', 'cf'), (r'xtl::xcomplex<float,float,true>', 'ct')]
    pd = 'typedef struct { float re; float im; } xv_cplx_f;\n'
    # unit cplx: IEEE semantics of CBMC for every float operation (contracts without products in the specification);
    # unit cplx_uf: float * and / uninterpreted in code and contract (the formula contracts; multiplier miters do not finish)
    u = U('cplx', INST, select, ctext, ra, std=FpStd(), fn_alias=alias, prelude=('xv_std.h', 'xv_fp.h'), pre_defs=pd).lower(workdir)
    REAL = ['w_add_f', 'w_sub_f', 'w_neg_f', 'w_eq_f', 'w_ne_f', 'w_add_sf', 'w_sub_sf', 'w_sadd_f', 'w_ssub_f', 'w_sdiv_t', 'w_add_rf', 'w_addeq_r', 'w_mul_t', 'w_mul_rt', 'w_div_t', 'w_diveq_t']
    UF = ['w_mul_f', 'w_div_f', 'w_sdiv_f', 'w_div_st', 'w_mul_sf', 'w_smul_f', 'w_div_sf', 'w_mul_rf', 'w_muleq_f', 'w_muleq_r', 'w_mul_t', 'w_mul_rt']
    jobs = u.contract_jobs(PROP, timeout=900, inline_all=True, pre_unwind=24, aliases=REAL, extra={'w_div_t': {'cases': [('annexg', []), ('scaling', ['XV_D5'])]}})
    u2 = U('cplx_uf', INST, select, '#define XV_UF_FLOAT 1\n' + ctext, ra, std=FpStd(), fn_alias=alias, prelude=('xv_std.h', 'xv_fp.h'), pre_defs=pd, uf_mul='floatall').lower(workdir)
    jobs += u2.contract_jobs(PROP, timeout=900, inline_all=True, pre_unwind=24, aliases=UF)
    return {'jobs': jobs, 'units': [u, u2], 'trusted_base': sorted(set(list(u.std.used) + list(u2.std.used))) + ['clang 14 AST; xtl2c lowering rules (DESIGN.md 3.2)', 'CBMC floating-point semantics (float bit-blasting)', 'model/xv_fp.h: logbf / scalbnf bit-level models'],
            'assumptions': ['element type float (IEEE-754 binary32, CBMC bit-precise semantics, round to nearest); double is not instantiated (the case ladders are the same template code)',
                            '"mathematically correct to within a few units of rounding" is decided as: the result is the textbook formula evaluated in float arithmetic (every operation rounded once); no error analysis of the formula itself',
                            'unit cplx_uf: float + - * / are uninterpreted functions shared by code and contract, with + and * applied in a canonical operand order (IEEE addition and multiplication are commutative); SAT does not finish float adder/multiplier miters',
                            'unit cplx: full IEEE semantics for every operation; logb and scalbn are exact bit-level models (model/xv_fp.h; the subnormal loop of logb is unwound 24 times with unwinding assertions)',
                            'Annex G clauses as written in the property, with "infinity" = a part is infinite even if the other is NaN; "finite operands never yield NaN" is decided as "never NaN + NaN i" (one NaN part can arise from overflow, as in the C99 reference code)',
                            'the forwarded elementary functions (conj, exp, ...) go through std::complex and are not lowered'],
            'coverage_extra': {'not_reached': ['double', 'conj / norm / abs / arg and the forwarded <complex> functions', 'std::complex conversions other than the one inside ieee division', 'stream operators']}}


def replay(ctx, job, ob, steps, base):
    """the counterexample's operands (bit patterns) and a grid of special / extreme values on the real operators"""
    from xv.driver import TraceView
    tv = TraceView(steps)
    def bits(obj, fld):
        o = tv.obj_of('in_' + obj) or tv.obj_of(obj)
        v = tv.bits('%s.%s' % (o, fld)) if o else None
        if v is None and o:
            # reference closures: the member is a pointer to a one-float object
            t = tv.obj_of('%s.%s' % (o, fld))
            v = tv.bits(t) if t else None
        return v if v is not None else 0x3f800000
    a, b = bits('a', 'm_real'), bits('a', 'm_imag')
    c, d = bits('b', 'm_real'), bits('b', 'm_imag')
    src = open(os.path.join(VERIF, 'props', 'C10_replay.cpp')).read()
    prog = '#define CEX_A 0x%08xu\n#define CEX_B 0x%08xu\n#define CEX_C 0x%08xu\n#define CEX_D 0x%08xu\n' % (a & 0xffffffff, b & 0xffffffff, c & 0xffffffff, d & 0xffffffff) + src
    rc, out = native_run(prog, base, timeout=300)
    return (rc not in (0, None), (out or '')[-2000:] + '\nprogram: %s.cpp' % base)
