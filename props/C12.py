"""C12: iterator bases and adaptors obey the random-access / bidirectional laws."""
import os, re
from xv.unit import Unit
from xv.driver import Job, VERIF
from xv.prop import native_run

PROP = 'C12'
INST = r'''
#include <xtl/xdynamic_bitset.hpp>
#include <xtl/xiterator_base.hpp>
using BS = xtl::xdynamic_bitset<unsigned char>;
using BSB = xtl::xdynamic_bitset_base<BS>;
using BIT = xtl::xbitset_iterator<BS, false>;
using SIT = xtl::xstepping_iterator<int*>;
template class xtl::xbitset_iterator<BS, false>;
template class xtl::xstepping_iterator<int*>;
// the derived operators are friends defined in the base class templates: name each once so that clang instantiates them
template <class I> void use(I& a, const I& b, std::ptrdiff_t n) {
  (void)(a++); (void)(a--); (void)(a != b); (void)(b + n); (void)(n + b); (void)(b - n); (void)(a <= b); (void)(a >= b); (void)(a > b); (void)(a == b); (void)(a < b); (void)(a - b); (void)b[n];
}
template void use<BIT>(BIT&, const BIT&, std::ptrdiff_t);
template void use<SIT>(SIT&, const SIT&, std::ptrdiff_t);
'''
REC_ALIAS = [(r'xtl::xdynamic_bitset<unsigned char>', 'bs'), (r'xtl::xdynamic_bitset_base<xtl::xdynamic_bitset<unsigned char>>', 'bsb'),
             (r'xtl::xbitset_iterator<xtl::xdynamic_bitset<unsigned char>,false>', 'bit'), (r'xtl::xstepping_iterator<int\*>', 'sit'),
             (r'xtl::xbitset_reference<xtl::xdynamic_bitset<unsigned char>,false>', 'bsref'),
             (r'xtl::xrandom_access_iterator_base<xtl::xbitset_iterator<.*', 'rab_bit'), (r'xtl::xbidirectional_iterator_base<xtl::xbitset_iterator<.*', 'bib_bit'),
             (r'xtl::xrandom_access_iterator_base<xtl::xstepping_iterator<.*', 'rab_sit'), (r'xtl::xbidirectional_iterator_base<xtl::xstepping_iterator<.*', 'bib_sit')]


def select(fn, q, lw):
    if q.startswith('xtl::xbitset_iterator::') or q.startswith('xtl::xstepping_iterator::'):
        return not (fn.get('isImplicit') or fn.get('explicitlyDefaulted'))
    if q.startswith('xtl::xrandom_access_iterator_base::') or q.startswith('xtl::xbidirectional_iterator_base::') or q in ('xtl::operator==', 'xtl::operator<'):
        return True
    if q.startswith('xtl::operator') and fn.get('name', '').startswith('operator'):
        return 'xstepping_iterator' in fn['type']['qualType'] or 'xbitset_iterator' in fn['type']['qualType']
    return False


INST_P = r"""
#include <xtl/xoptional_sequence.hpp>
#include <xtl/xcomplex_sequence.hpp>
using BS = xtl::xdynamic_bitset<unsigned char>;
// the iterator types of xoptional_vector<int, std::allocator<int>, BS> and xcomplex_vector<int, false>
using OIT = xtl::xoptional_iterator<std::vector<int>::iterator, xtl::xbitset_iterator<BS, false>>;
using CIT = xtl::xcomplex_iterator<std::vector<int>::iterator, false>;
static_assert(std::is_same<OIT, xtl::xoptional_vector<int, std::allocator<int>, BS>::iterator>::value, "iterator of the optional vector");
static_assert(std::is_same<CIT, xtl::xcomplex_vector<int, false>::iterator>::value, "iterator of the complex vector");
template class xtl::xoptional_iterator<std::vector<int>::iterator, xtl::xbitset_iterator<BS, false>>;
template class xtl::xcomplex_iterator<std::vector<int>::iterator, false>;
template <class I> void use(I& a, const I& b, std::ptrdiff_t n) {
  (void)(a++); (void)(a--); (void)(a != b); (void)(b + n); (void)(n + b); (void)(b - n); (void)(a <= b); (void)(a >= b); (void)(a > b); (void)(a == b); (void)(a < b); (void)(a - b); (void)b[n];
}
template void use<OIT>(OIT&, const OIT&, std::ptrdiff_t);
template void use<CIT>(CIT&, const CIT&, std::ptrdiff_t);
"""
REC_ALIAS_P = [(r'xtl::xdynamic_bitset<unsigned char>', 'bs'), (r'xtl::xdynamic_bitset_base<xtl::xdynamic_bitset<unsigned char>>', 'bsb'),
               (r'xtl::xbitset_iterator<xtl::xdynamic_bitset<unsigned char>,false>', 'bit'), (r'xtl::xbitset_reference<xtl::xdynamic_bitset<unsigned char>,false>', 'bsref'),
               (r'xtl::xoptional_iterator<.*', 'oit'), (r'xtl::xcomplex_iterator<.*', 'cit'),
               (r'xtl::xoptional<int&,xtl::xbitset_reference<.*', 'oref'), (r'xtl::xcomplex<int&,int&,false>', 'cref'),
               (r'xtl::xrandom_access_iterator_base<xtl::xoptional_iterator<.*', 'rab_oit'), (r'xtl::xbidirectional_iterator_base<xtl::xoptional_iterator<.*', 'bib_oit'),
               (r'xtl::xrandom_access_iterator_base<xtl::xcomplex_iterator<.*', 'rab_cit'), (r'xtl::xbidirectional_iterator_base<xtl::xcomplex_iterator<.*', 'bib_cit'),
               (r'xtl::xrandom_access_iterator_base<xtl::xbitset_iterator<.*', 'rab_bit'), (r'xtl::xbidirectional_iterator_base<xtl::xbitset_iterator<.*', 'bib_bit')]


def select_p(fn, q, lw):
    if q.startswith('xtl::xoptional_iterator::') or q.startswith('xtl::xcomplex_iterator::'):
        return not (fn.get('isImplicit') or fn.get('explicitlyDefaulted'))
    if q.startswith('xtl::xrandom_access_iterator_base::') or q.startswith('xtl::xbidirectional_iterator_base::'):
        return True
    if q.startswith('xtl::operator') and fn.get('name', '').startswith('operator'):
        return 'xoptional_iterator' in fn['type']['qualType'] or 'xcomplex_iterator' in fn['type']['qualType']
    return False


def build(tier, workdir, seed):
    ctext = open(os.path.join(VERIF, 'contracts', 'C12_iter.h')).read()
    units, jobs = [], []
    for step in ([1, 3] if tier == 'quick' else [1, 2, 3, 7]):
        u = Unit('iter%d' % step, INST, select, '#define XV_STEP %d\n' % step + ctext, REC_ALIAS, defines=['NDEBUG'], extra_c='int* xv_arr;\n').lower(workdir)
        units.append(u)
        todo = [c for c in u.contracts if c in u.lw.loops and (step == 1 or 'sit' in c)]
        jobs += u.contract_jobs(PROP, aliases=todo, timeout=600, inline_all=True)
        lp = os.path.join(workdir, 'iter%d_lemmas.c' % step)
        open(lp, 'w').write('#include "iter%d_harness.c"\n' % step + open(os.path.join(VERIF, 'contracts', 'C12_lemmas.c')).read())
        rep = sorted(c for c in u.contracts if c in u.lw.loops)
        lemmas = ['lemma_sit_arith', 'lemma_sit_order']
        if step == 1:
            lemmas += ['lemma_bit_arith', 'lemma_bit_order', 'lemma_bit_postfix', 'lemma_bit_traversal']
        for lm in lemmas:
            jobs.append(Job('iter%d__%s' % (step, lm), [lp], lm, enforce=None, replace=rep, loop_contracts=True, kind='lemma', prop=PROP, unit=u.name, timeout=600,
                            info={'contract_loops': 0}, objbits=12))
    # second unit: the paired iterators of the optional / complex sequences (both sub-iterators in lockstep) and their derived operators
    up = Unit('piter', INST_P, select_p, open(os.path.join(VERIF, 'contracts', 'C12_oiter.h')).read(), REC_ALIAS_P, defines=['NDEBUG'], extra_c='int* xv_arr;\nint* xv_arr2;\n').lower(workdir)
    units.append(up)
    todo_p = [c for c in up.contracts if c in up.lw.loops]
    jobs += up.contract_jobs(PROP, aliases=todo_p, timeout=600, inline_all=True)
    lp = os.path.join(workdir, 'piter_lemmas.c')
    open(lp, 'w').write('#include "piter_harness.c"\n' + open(os.path.join(VERIF, 'contracts', 'C12_olemmas.c')).read())
    for lm in ('lemma_oit_arith', 'lemma_oit_order', 'lemma_oit_postfix', 'lemma_oit_traversal', 'lemma_cit_arith', 'lemma_cit_order', 'lemma_cit_postfix'):
        jobs.append(Job('piter__%s' % lm, [lp], lm, enforce=None, replace=sorted(todo_p), loop_contracts=True, kind='lemma', prop=PROP, unit=up.name, timeout=600,
                        info={'contract_loops': 0}, objbits=12))
    return {'jobs': jobs, 'units': units,
            'trusted_base': sorted(set(sum([list(u.std.used) for u in units], []))) + ['clang 14 AST; xtl2c lowering rules (DESIGN.md 3.2)'],
            'assumptions': ['second unit (piter): xoptional_iterator<vector<int>::iterator, xbitset_iterator<...>> and xcomplex_iterator<vector<int>::iterator,false> (the iterator types of xoptional_vector / xcomplex_vector) with the representation invariant that both sub-iterators stand at the same position; every primitive and derived operator must keep it',
                            'iterator kinds under contract: xbitset_iterator<xdynamic_bitset<uint8_t>,false> and xstepping_iterator<int*> with step in {1,3} (thorough: {1,2,3,7}); the friend operators are the instantiations of xbidirectional_iterator_base / xrandom_access_iterator_base for these two derived types',
                            'positions and offsets: any a, b in [begin, end] and any n keeping the result in range (container size ghost up to 2^40 for the bitset iterator, up to 10^6 ints for the stepping iterator)',
                            'the laws are lemma harnesses proved over the contracts only (calls replaced by contracts); it[n] == *(it + n) is stated by the two contracts (same designated element) and composed by a meta-argument',
                            'ordering laws are stated for iterators of one container / one array, as in the property'],
            'coverage_extra': {'steps': [1, 3] if tier == 'quick' else [1, 2, 3, 7],
                               'not_reached': ['operator[] of xoptional_iterator (proof of the inlined chain did not finish); const / reverse variants of the sequence iterators (same class templates, other sub-iterator types)', 'xkey_iterator / xvalue_iterator over std::map (node iterators)', 'xrandom_access_iterator_ext size_t overloads',
                                               'full-traversal lemma for the stepping iterator (proved for the bitset iterator)', 'reverse_iterator adaptors']}}


REPLAY = r'''
// C12 replay on the real headers: the iterator laws on xbitset_iterator and xstepping_iterator for every pair of positions of
// small containers and every offset that stays in range.  Exit 1 = a law fails (printed).
#include <xtl/xdynamic_bitset.hpp>
#include <xtl/xiterator_base.hpp>
#include <cstdio>
#include <vector>
#define FAIL(...) do { std::printf(__VA_ARGS__); std::printf("\n"); return 1; } while (0)
template <class It> static int laws(It begin, long n, const char* what)
{
    for (long i = 0; i <= n; ++i) { It a = begin + i;
        if ((a - begin) != i) FAIL("%s: (begin + %ld) - begin = %ld", what, i, (long)(a - begin));
        for (long j = 0; j <= n; ++j) { It b = begin + j; long d = j - i;
            if ((b - a) != d) FAIL("%s: it(%ld) - it(%ld) = %ld", what, j, i, (long)(b - a));
            if (!((a + d) == b) || !((d + a) == b) || !((b - d) == a)) FAIL("%s: (it + n) / (n + it) / (it - n) disagree at %ld, n = %ld", what, i, d);
            { It c = a; c += d; if (!(c == b)) FAIL("%s: += %ld from %ld", what, d, i); c -= d; if (!(c == a)) FAIL("%s: -= %ld", what, d); }
            if ((a < b) != (i < j) || (a <= b) != (i <= j) || (a > b) != (i > j) || (a >= b) != (i >= j) || (a == b) != (i == j) || (a != b) != (i != j)) FAIL("%s: comparison of positions %ld and %ld", what, i, j);
        }
        if (i < n) { It c = a; It old = c++; if (!(old == a) || !(c == a + 1)) FAIL("%s: postfix ++ at %ld", what, i); It e = a; ++e; if (!(e == a + 1)) FAIL("%s: prefix ++ at %ld", what, i); }
        if (i > 0) { It c = a; It old = c--; if (!(old == a) || !(c == a - 1)) FAIL("%s: postfix -- at %ld", what, i); It e = a; --e; if (!(e == a - 1)) FAIL("%s: prefix -- at %ld", what, i); }
    }
    return 0;
}
int main()
{
    for (std::size_t n : {0u, 1u, 7u, 8u, 9u, 17u, 40u}) {
        xtl::xdynamic_bitset<unsigned char> b(n, false); for (std::size_t k = 0; k < n; k += 3) b.set(k, true);
        if (laws(b.begin(), (long)n, "bitset iterator")) return 1;
        long k = 0; for (auto it = b.begin(); it != b.end(); ++it, ++k) { if (bool(*it) != bool(b[(std::size_t)k]) || bool(b.begin()[k]) != bool(b[(std::size_t)k]) || bool(*(b.begin() + k)) != bool(b[(std::size_t)k])) FAIL("bitset iterator: element %ld through *it / it[n] / *(it+n)", k); }
        if (k != (long)n) FAIL("bitset iterator: begin..end visits %ld of %zu bits", k, n);
        const auto& cb = b; if (laws(cb.cbegin(), (long)n, "const bitset iterator")) return 1; }
    for (long step : {1L, 2L, 3L, 7L}) for (long m : {0L, 1L, 5L, 12L}) {
        std::vector<int> v((std::size_t)(m * step + 1)); for (std::size_t k = 0; k < v.size(); ++k) v[k] = (int)k;
        xtl::xstepping_iterator<int*> it(v.data(), step);
        if (laws(it, m, "stepping iterator")) return 1;
        for (long k = 0; k < m; ++k) if (*(it + k) != (int)(k * step) || it[k] != (int)(k * step)) FAIL("stepping iterator (step %ld): element %ld", step, k); }
    return 0;
}
'''


def replay(ctx, job, ob, steps, base):
    from xv.prop import native_run
    rc, out = native_run(REPLAY, base, extra=['-fsanitize=address,undefined', '-fno-sanitize=shift,null', '-fno-sanitize-recover=all', '-O1'], timeout=300)
    return (rc not in (0, None), (out or '')[-2000:] + '\nprogram: %s.cpp (g++ -fsanitize=address,undefined)' % base)
