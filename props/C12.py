"""C12: iterator bases and adaptors obey the random-access / bidirectional laws."""
import os, re
from xv.unit import Unit
from xv.driver import Job, VERIF
from xv.prop import native_run

PROP = 'C12'
INST = r'''
#include <xtl/xdynamic_bitset.hpp>
#include <xtl/xiterator_base.hpp>
using BS = xtl::xdynamic_bitset<unsigned char>;
using BSB = xtl::xdynamic_bitset_base<BS>;
using BIT = xtl::xbitset_iterator<BS, false>;
using SIT = xtl::xstepping_iterator<int*>;
template class xtl::xbitset_iterator<BS, false>;
template class xtl::xstepping_iterator<int*>;
// the derived operators are friends defined in the base class templates: name each once so that clang instantiates them
template <class I> void use(I& a, const I& b, std::ptrdiff_t n) {
  (void)(a++); (void)(a--); (void)(a != b); (void)(b + n); (void)(n + b); (void)(b - n); (void)(a <= b); (void)(a >= b); (void)(a > b); (void)(a == b); (void)(a < b); (void)(a - b); (void)b[n];
}
template void use<BIT>(BIT&, const BIT&, std::ptrdiff_t);
template void use<SIT>(SIT&, const SIT&, std::ptrdiff_t);
'''
REC_ALIAS = [(r'xtl::xdynamic_bitset<unsigned char>', 'bs'), (r'xtl::xdynamic_bitset_base<xtl::xdynamic_bitset<unsigned char>>', 'bsb'),
             (r'xtl::xbitset_iterator<xtl::xdynamic_bitset<unsigned char>,false>', 'bit'), (r'xtl::xstepping_iterator<int\*>', 'sit'),
             (r'xtl::xbitset_reference<xtl::xdynamic_bitset<unsigned char>,false>', 'bsref'),
             (r'xtl::xrandom_access_iterator_base<xtl::xbitset_iterator<.*', 'rab_bit'), (r'xtl::xbidirectional_iterator_base<xtl::xbitset_iterator<.*', 'bib_bit'),
             (r'xtl::xrandom_access_iterator_base<xtl::xstepping_iterator<.*', 'rab_sit'), (r'xtl::xbidirectional_iterator_base<xtl::xstepping_iterator<.*', 'bib_sit')]


def select(fn, q, lw):
    if q.startswith('xtl::xbitset_iterator::') or q.startswith('xtl::xstepping_iterator::'):
        return not (fn.get('isImplicit') or fn.get('explicitlyDefaulted'))
    if q.startswith('xtl::xrandom_access_iterator_base::') or q.startswith('xtl::xbidirectional_iterator_base::') or q in ('xtl::operator==', 'xtl::operator<'):
        return True
    if q.startswith('xtl::operator') and fn.get('name', '').startswith('operator'):
        return 'xstepping_iterator' in fn['type']['qualType'] or 'xbitset_iterator' in fn['type']['qualType']
    return False


def build(tier, workdir, seed):
    ctext = open(os.path.join(VERIF, 'contracts', 'C12_iter.h')).read()
    units, jobs = [], []
    for step in ([1, 3] if tier == 'quick' else [1, 2, 3, 7]):
        u = Unit('iter%d' % step, INST, select, '#define XV_STEP %d\n' % step + ctext, REC_ALIAS, defines=['NDEBUG'], extra_c='int* xv_arr;\n').lower(workdir)
        units.append(u)
        todo = [c for c in u.contracts if c in u.lw.loops and (step == 1 or 'sit' in c)]
        jobs += u.contract_jobs(PROP, aliases=todo, timeout=600, inline_all=True)
        lp = os.path.join(workdir, 'iter%d_lemmas.c' % step)
        open(lp, 'w').write('#include "iter%d_harness.c"\n' % step + open(os.path.join(VERIF, 'contracts', 'C12_lemmas.c')).read())
        rep = sorted(c for c in u.contracts if c in u.lw.loops)
        lemmas = ['lemma_sit_arith', 'lemma_sit_order']
        if step == 1:
            lemmas += ['lemma_bit_arith', 'lemma_bit_order', 'lemma_bit_postfix', 'lemma_bit_traversal']
        for lm in lemmas:
            jobs.append(Job('iter%d__%s' % (step, lm), [lp], lm, enforce=None, replace=rep, loop_contracts=True, kind='lemma', prop=PROP, unit=u.name, timeout=600,
                            info={'contract_loops': 0}, objbits=12))
    return {'jobs': jobs, 'units': units,
            'trusted_base': sorted(set(sum([list(u.std.used) for u in units], []))) + ['clang 14 AST; xtl2c lowering rules (DESIGN.md 3.2)'],
            'assumptions': ['iterator kinds under contract: xbitset_iterator<xdynamic_bitset<uint8_t>,false> and xstepping_iterator<int*> with step in {1,3} (thorough: {1,2,3,7}); the friend operators are the instantiations of xbidirectional_iterator_base / xrandom_access_iterator_base for these two derived types',
                            'positions and offsets: any a, b in [begin, end] and any n keeping the result in range (container size ghost up to 2^40 for the bitset iterator, up to 10^6 ints for the stepping iterator)',
                            'the laws are lemma harnesses proved over the contracts only (calls replaced by contracts); it[n] == *(it + n) is stated by the two contracts (same designated element) and composed by a meta-argument',
                            'ordering laws are stated for iterators of one container / one array, as in the property'],
            'coverage_extra': {'steps': [1, 3] if tier == 'quick' else [1, 2, 3, 7],
                               'not_reached': ['xoptional_iterator / xcomplex_iterator (pairs of sub-iterators)', 'xkey_iterator / xvalue_iterator over std::map (node iterators)', 'xrandom_access_iterator_ext size_t overloads',
                                               'full-traversal lemma for the stepping iterator (proved for the bitset iterator)', 'reverse_iterator adaptors']}}
