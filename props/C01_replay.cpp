// C01/C02 replay search: random operation histories on the real xbasic_fixed_string<char, CAP, ...> (throwing policy)
// against std::string, ending with the operation under suspicion (XV_OP substring match; empty = any).
// After every call: size(), characters, terminator, returned values; after a throw: exception type and the WHOLE object
// (all CAP+1 buffer bytes and the length encoding) unchanged; the object sits between guard bytes.  Exit 1 = mismatch.
#include <xtl/xbasic_fixed_string.hpp>
#include <string>
#include <cstdio>
#include <cstring>
#include <stdexcept>
#ifndef CAP
#define CAP 7
#endif
#ifndef XV_OP
#define XV_OP ""
#endif
#ifndef SEED
#define SEED 0u
#endif
#ifdef XV_ZLAYOUT
// strlen-sized (numpy) layout: no stored size; stale characters stay behind the terminator after a shrink
using FS = xtl::xbasic_fixed_string<char, CAP, xtl::buffer, xtl::string_policy::throwing_error>;
#else
using FS = xtl::xbasic_fixed_string<char, CAP, xtl::buffer | xtl::store_size, xtl::string_policy::throwing_error>;
#endif
static unsigned rs = SEED * 2654435761u + 11u;
static unsigned rnd() { rs = rs * 1664525u + 1013904223u; return rs >> 8; }
static std::string hist;
static void note(const char* op, long a = -1, long b = -1, long c = -1) { char buf[96]; std::snprintf(buf, sizeof buf, " %s(%ld,%ld,%ld)", op, a, b, c); hist += buf; }
struct Box { unsigned char g0[16]; FS s; unsigned char g1[16]; };
static int same(const FS& f, const std::string& m, const char* what)
{
    if (f.size() != m.size()) { std::printf("%s: size() = %zu, std::string has %zu\n", what, f.size(), m.size()); return 1; }
    if (std::memcmp(f.data(), m.data(), m.size()) != 0) { std::printf("%s: contents \"%.*s\", std::string has \"%s\"\n", what, (int)f.size(), f.data(), m.c_str()); return 1; }
    if (f.data()[f.size()] != 0) { std::printf("%s: no terminator at data()[size()]\n", what); return 1; }
    if (f.empty() != m.empty() || f.length() != m.length()) { std::printf("%s: empty()/length() wrong\n", what); return 1; }
    return 0;
}
static const char* NAMES[] = {"assign__ul_c", "assign__pc_ul", "push_back", "pop_back", "append__pc_ul", "append__ul_c", "resize", "insert", "erase", "replace", "clear", "copy", "compare", "dflt_find", "dflt_rfind", "find_first_of", "find_last_of", "find_first_not_of", "find_last_not_of", "at"};
static const int NOPS = sizeof(NAMES) / sizeof(NAMES[0]);
static std::string rstr(std::size_t n) { std::string r; for (std::size_t i = 0; i < n; ++i) r += (char)("abcab\x80z"[rnd() % 7]); return r; }

static int step(int k, Box& b, std::string& m)
{
    FS& f = b.s;
    unsigned char snap[sizeof(FS)]; std::memcpy(snap, &f, sizeof(FS));
    std::size_t n = m.size();
    std::size_t cs[] = {0, 1, 2, CAP - n > CAP ? 0 : CAP - n, CAP - n + 1, CAP, CAP + 1, (std::size_t)(rnd() % (CAP + 3))};
    std::size_t cnt = cs[rnd() % 8], pos = (rnd() % 5 == 0) ? n + 1 + rnd() % 2 : (n ? rnd() % (n + 1) : 0);
    std::size_t cnt2 = (rnd() % 4 == 0) ? std::string::npos : rnd() % (CAP + 2);
    std::string arg = rstr(cnt);
    char ch = "xyz\xff"[rnd() % 4];
    int fx = 0, mx = 0; long fr = 0, mr = 0;   // exception codes 1 = length_error, 2 = out_of_range; returned values
    auto runf = [&](auto fn) { try { fn(); } catch (std::length_error&) { fx = 1; } catch (std::out_of_range&) { fx = 2; } };
    auto runm = [&](auto fn, std::size_t newlen) { if (newlen > CAP && newlen != (std::size_t)-1) { mx = 1; return; } try { fn(); } catch (std::out_of_range&) { mx = 2; } };
    switch (k)
    {
    case 0: note("assign", (long)cnt, ch); runf([&] { f.assign(cnt, ch); }); runm([&] { m.assign(cnt, ch); }, cnt); break;
    case 1: note("assign_s", (long)cnt); runf([&] { f.assign(arg.data(), cnt); }); runm([&] { m.assign(arg.data(), cnt); }, cnt); break;
    case 2: note("push_back", ch); runf([&] { f.push_back(ch); }); runm([&] { m.push_back(ch); }, n + 1); break;
    case 3: if (!n) return 0; note("pop_back"); f.pop_back(); m.pop_back(); break;
    case 4: note("append_s", (long)cnt); runf([&] { f.append(arg.data(), cnt); }); runm([&] { m.append(arg.data(), cnt); }, n + cnt); break;
    case 5: note("append", (long)cnt, ch); runf([&] { f.append(cnt, ch); }); runm([&] { m.append(cnt, ch); }, n + cnt); break;
    case 6: note("resize", (long)cnt, ch); runf([&] { f.resize(cnt, ch); }); runm([&] { m.resize(cnt, ch); }, cnt); break;
    case 7: note("insert", (long)pos, (long)cnt); runf([&] { f.insert(pos, arg.data(), cnt); }); runm([&] { m.insert(pos, arg.data(), cnt); }, pos > n ? (std::size_t)-1 : n + cnt); if (pos > n) mx = 2; break;
    case 8: note("erase", (long)pos, (long)cnt2); runf([&] { f.erase(pos, cnt2); }); runm([&] { m.erase(pos, cnt2); }, 0); break;
    case 9: { std::size_t c = pos <= n ? std::min(cnt2, n - pos) : 0; note("replace", (long)pos, (long)cnt2, (long)cnt);
              runf([&] { f.replace(pos, cnt2, arg.data(), cnt); }); runm([&] { m.replace(pos, cnt2, arg.data(), cnt); }, pos > n ? (std::size_t)-1 : n - c + cnt); if (pos > n) mx = 2; break; }
    case 10: note("clear"); f.clear(); m.clear(); break;
    case 11: { char d1[CAP + 4], d2[CAP + 4]; std::memset(d1, '#', sizeof d1); std::memset(d2, '#', sizeof d2); std::size_t c = std::min<std::size_t>(cnt, CAP + 2); note("copy", (long)c, (long)pos);
               runf([&] { fr = (long)f.copy(d1, c, pos); }); runm([&] { mr = (long)m.copy(d2, c, pos); }, 0);
               if (!fx && !mx && std::memcmp(d1, d2, sizeof d1)) { std::printf("copy(): copied characters differ\n"); return 1; } break; }
    case 12: { note("compare", (long)cnt); int a = f.compare(arg.c_str()), c2 = m.compare(arg.c_str()); fr = (a > 0) - (a < 0); mr = (c2 > 0) - (c2 < 0); break; }
    case 13: note("find", ch); fr = (long)f.find(ch); mr = (long)m.find(ch); { char c = n ? m[rnd() % n] : ch; if (f.find(c) != m.find(c)) { std::printf("find('%c') (defaulted pos) = %zu, std::string %zu\n", c, f.find(c), m.find(c)); return 1; } } break;
    case 14: { char c = n ? m[rnd() % n] : ch; note("rfind", c); fr = (long)f.rfind(c); mr = (long)m.rfind(c); break; }
    case 15: { char c = n ? m[rnd() % n] : ch; note("find_first_of", c); fr = (long)f.find_first_of(c); mr = (long)m.find_first_of(c); break; }
    case 16: { char c = n ? m[rnd() % n] : ch; note("find_last_of", c); fr = (long)f.find_last_of(c); mr = (long)m.find_last_of(c); break; }
    case 17: { char c = n ? m[rnd() % n] : ch; note("find_first_not_of", c); fr = (long)f.find_first_not_of(c); mr = (long)m.find_first_not_of(c); break; }
    case 18: { char c = n ? m[rnd() % n] : ch; note("find_last_not_of", c); fr = (long)f.find_last_not_of(c); mr = (long)m.find_last_not_of(c); break; }
    case 19: { note("at", (long)pos); runf([&] { fr = f.at(pos); }); if (pos >= n) mx = 2; else mr = m[pos]; break; }
    }
    if (fx != mx) { std::printf("exception: fixed string %s, std::string (bounded by capacity %d) %s\n", fx == 1 ? "length_error" : fx == 2 ? "out_of_range" : "none", CAP, mx == 1 ? "length_error" : mx == 2 ? "out_of_range" : "none"); return 1; }
    if (fx && std::memcmp(snap, &f, sizeof(FS))) { std::printf("the failed operation changed the object (size() now %zu)\n", f.size()); return 1; }
    if (!fx && fr != mr) { std::printf("returned value %ld, std::string returns %ld\n", fr, mr); return 1; }
    return same(f, m, "after the call");
}

int main()
{
    const std::string want = XV_OP;
    int target = -1;
    for (int k = 0; k < NOPS; ++k) if (!want.empty() && want.find(NAMES[k]) != std::string::npos) target = k;
    for (int it = 0; it < 20000; ++it)
    {
        hist.clear();
        Box b; std::memset(b.g0, 0xA5, 16); std::memset(b.g1, 0x5A, 16);
        std::string m = rstr(rnd() % 3 == 0 ? CAP : rnd() % (CAP + 1));
        b.s.assign(m.data(), m.size()); note("init", (long)m.size());
        int bad = same(b.s, m, "after construction");
        int len = rnd() % 4;
        for (int s = 0; s < len && !bad; ++s) bad = step(rnd() % NOPS, b, m);
        if (!bad) bad = step(target >= 0 ? target : (int)(rnd() % NOPS), b, m);
        for (int i = 0; i < 16 && !bad; ++i) if (b.g0[i] != 0xA5 || b.g1[i] != 0x5A) { std::printf("bytes next to the string object were overwritten\n"); bad = 1; }
        if (bad) { std::printf("capacity %d, history:%s\n", CAP, hist.c_str()); return 1; }
    }
    return 0;
}
