// C03 replay search: after a contract obligation of a bitset function failed, look for a concrete failing input by
// running short random operation histories on the real header against std::vector<bool>, ending with the operation
// under suspicion (OP, a string matched against the operation names below; empty = every operation).
// Owning bitset and view (over caller memory with guard blocks), block type BLOCK.  Exit 1 = mismatch found (printed).
#include <xtl/xdynamic_bitset.hpp>
#include <vector>
#include <string>
#include <cstdio>
#include <cstring>
#include <stdexcept>
#ifndef BLOCK
#define BLOCK unsigned char
#endif
#ifndef OP
#define OP ""
#endif
#ifndef SEED
#define SEED 0u
#endif
using B = BLOCK;
using BS = xtl::xdynamic_bitset<B>;
using BV = xtl::xdynamic_bitset_view<B>;
static const std::size_t W = sizeof(B) * 8;
static unsigned rs = SEED * 2654435761u + 7u;
static unsigned rnd() { rs = rs * 1664525u + 1013904223u; return rs >> 8; }
static std::string hist;
static void note(const char* op, long a = -1, long b = -1) { char buf[96]; std::snprintf(buf, sizeof buf, " %s(%ld,%ld)", op, a, b); hist += buf; }

template <class X> static int compare(const X& x, const std::vector<bool>& m, const char* what)
{
    int bad = 0;
    if (x.size() != m.size()) { std::printf("%s: size() = %zu, expected %zu\n", what, x.size(), m.size()); return 1; }
    if (x.empty() != m.empty()) { std::printf("%s: empty() wrong\n", what); bad = 1; }
    std::size_t cnt = 0;
    for (std::size_t i = 0; i < m.size(); ++i) { cnt += m[i]; if (bool(x[i]) != m[i]) { std::printf("%s: bit %zu = %d, expected %d\n", what, i, (int)bool(x[i]), (int)m[i]); return 1; } }
    if (x.count() != cnt) { std::printf("%s: count() = %zu, expected %zu\n", what, x.count(), cnt); bad = 1; }
    if (x.any() != (cnt > 0)) { std::printf("%s: any() = %d, expected %d\n", what, (int)x.any(), (int)(cnt > 0)); bad = 1; }
    if (x.none() != (cnt == 0)) { std::printf("%s: none() wrong\n", what); bad = 1; }
    if (x.all() != (cnt == m.size())) { std::printf("%s: all() = %d, expected %d\n", what, (int)x.all(), (int)(cnt == m.size())); bad = 1; }
    if (x.block_count() != (m.size() + W - 1) / W) { std::printf("%s: block_count() = %zu\n", what, x.block_count()); bad = 1; }
    if (m.size() % W != 0 && x.block_count() > 0 && (x.data()[x.block_count() - 1] >> (m.size() % W)) != 0) { std::printf("%s: bits beyond size() in the last block are not zero\n", what); bad = 1; }
    for (std::size_t i : {m.size(), m.size() + 1, m.size() + W, ((m.size() + W - 1) / W) * W - 1 + (m.size() % W == 0 ? W : 0)})
    {
        bool thrown = false; try { (void)bool(x.at(i)); } catch (std::out_of_range&) { thrown = true; }
        if (thrown != (i >= m.size())) { std::printf("%s: at(%zu) %s with size %zu\n", what, i, thrown ? "throws" : "does not throw", m.size()); bad = 1; }
    }
    return bad;
}

// applies operation k to x and its model; ops that change the size are skipped for views
template <class X, bool OWNER> struct Apply
{
    static void resize_(X&, std::vector<bool>&, std::size_t, bool) {}
};
static const char* NAMES[] = {"set_v", "reset_v", "flip_v", "set_ul_b", "reset_ul", "flip_ul", "op_shl_assign", "op_shr_assign", "op_and_assign", "op_or_assign",
                              "op_xor_assign", "resize", "push_back", "pop_back", "clear", "assign", "ref_assign", "ref_flip", "op_eq", "w_"};
static const int NOPS = sizeof(NAMES) / sizeof(NAMES[0]);

template <class X> static bool step(int k, X& x, std::vector<bool>& m, bool owner, BS* own)
{
    std::size_t n = m.size();
    std::size_t pos = n ? rnd() % n : 0;
    switch (k)
    {
    case 0: x.set(); m.assign(n, true); note("set"); return true;
    case 1: x.reset(); m.assign(n, false); note("reset"); return true;
    case 2: x.flip(); m.flip(); note("flip"); return true;
    case 3: if (!n) return false; { bool v = rnd() & 1; x.set(pos, v); m[pos] = v; note("set", (long)pos, v); } return true;
    case 4: if (!n) return false; x.reset(pos); m[pos] = false; note("reset", (long)pos); return true;
    case 5: if (!n) return false; x.flip(pos); m[pos] = !m[pos]; note("flip", (long)pos); return true;
    case 6: case 7: {
        std::size_t c[] = {0, 1, W - 1, W, W + 1, 2 * W, n ? n - 1 : 0, n, n + 1, (std::size_t)-1, (std::size_t)(rnd() % (n + 2))};
        std::size_t s = c[rnd() % (sizeof c / sizeof c[0])];
        std::vector<bool> r(n, false);
        if (k == 6) { x <<= s; for (std::size_t g = 0; g < n; ++g) if (g >= s) r[g] = m[g - s]; note("<<=", (long)s); }
        else { x >>= s; for (std::size_t g = 0; g < n; ++g) if (s < n && g < n - s) r[g] = m[g + s]; note(">>=", (long)s); }
        m = r; return true; }
    case 8: case 9: case 10: {
        BS o(n, false); std::vector<bool> om(n);
        for (std::size_t g = 0; g < n; ++g) { bool v = rnd() & 1; o.set(g, v); om[g] = v; }
        if (k == 8) { x &= o; for (std::size_t g = 0; g < n; ++g) m[g] = m[g] && om[g]; note("&="); }
        if (k == 9) { x |= o; for (std::size_t g = 0; g < n; ++g) m[g] = m[g] || om[g]; note("|="); }
        if (k == 10) { x ^= o; for (std::size_t g = 0; g < n; ++g) m[g] = m[g] != om[g]; note("^="); }
        return true; }
    case 11: if (!owner) return false; { std::size_t c[] = {0, 1, W - 1, W, W + 1, 2 * W + 3, n + W, n + 1, n ? n - 1 : 0}; std::size_t s = c[rnd() % 9]; bool v = rnd() & 1; own->resize(s, v); m.resize(s, v); note("resize", (long)s, v); } return true;
    case 12: if (!owner) return false; { bool v = rnd() & 1; own->push_back(v); m.push_back(v); note("push_back", v); } return true;
    case 13: if (!owner || !n) return false; own->pop_back(); m.pop_back(); note("pop_back"); return true;
    case 14: if (!owner || (rnd() % 4)) return false; own->clear(); m.clear(); note("clear"); return true;
    case 15: if (!owner) return false; { std::size_t s = rnd() % (3 * W + 2); bool v = rnd() & 1; own->assign(s, v); m.assign(s, v); note("assign", (long)s, v); } return true;
    case 16: if (!n) return false; { bool v = rnd() & 1; x[pos] = v; m[pos] = v; note("ref=", (long)pos, v); } return true;
    case 17: if (!n) return false; x[pos].flip(); m[pos] = !m[pos]; note("ref.flip", (long)pos); return true;
    case 18: { BS o(n, false); for (std::size_t g = 0; g < n; ++g) o.set(g, m[g]); bool e1 = (x == o); if (n) o.flip(rnd() % n); bool e2 = (x == o);
               note("=="); if (!e1 || (n && e2)) { std::printf("operator== wrong: equal copy -> %d, copy with one bit flipped -> %d\n", (int)e1, (int)e2); m.push_back(true); } } return true;
    case 19: { BS o(n, false); for (std::size_t g = 0; g < n; ++g) o.set(g, rnd() & 1);
               BS r1 = x | o, r2 = x & o, r3 = x ^ o, r4 = ~x; bool ok = r1.size() == n && r2.size() == n && r3.size() == n && r4.size() == n;
               for (std::size_t g = 0; ok && g < n; ++g) ok = bool(r1[g]) == (m[g] || bool(o[g])) && bool(r2[g]) == (m[g] && bool(o[g])) && bool(r3[g]) == (m[g] != bool(o[g])) && bool(r4[g]) == !m[g];
               note("| & ^ ~"); if (!ok) { std::printf("a free operator | & ^ ~ returned wrong bits\n"); m.push_back(true); } } return true;   // (an operand changed by them shows in the comparison of x with its model)
    }
    return false;
}

int main()
{
    const std::string want = OP;
    int target = -1;
    for (int k = 0; k < NOPS; ++k) if (!want.empty() && want.find(NAMES[k]) != std::string::npos) target = k;
    for (int it = 0; it < 6000; ++it)
    {
        hist.clear();
        std::size_t sizes[] = {0, 1, W - 1, W, W + 1, 2 * W, 2 * W + 5, 3 * W, (std::size_t)(rnd() % (4 * W + 1))};
        std::size_t n = sizes[rnd() % 9];
        bool use_view = (it & 1);
        std::vector<bool> m(n);
        int bad = 0;
        if (!use_view)
        {
            bool v = rnd() & 1; BS x(n, v); m.assign(n, v); note("ctor", (long)n, v);
            int len = rnd() % 4;
            for (int s = 0; s < len; ++s) step(rnd() % NOPS, x, m, true, &x);
            int k = target >= 0 ? target : (int)(rnd() % NOPS);
            step(k, x, m, true, &x);
            bad = compare(x, m, "owning bitset");
            if (!bad) { BS c(x); bad = compare(c, m, "copy of the bitset"); }
        }
        else
        {
            std::size_t nb = (n + W - 1) / W;
            std::vector<B> mem(nb + 2);
            for (auto& b : mem) b = (B)rnd();
            B g0 = mem[0], g1 = mem[nb + 1];
            for (std::size_t g = 0; g < n; ++g) m[g] = (mem[1 + g / W] >> (g % W)) & 1;
            BV x(mem.data() + 1, n); note("view", (long)n);
            int len = rnd() % 4;
            for (int s = 0; s < len; ++s) step(rnd() % NOPS, x, m, false, (BS*)nullptr);
            int k = target >= 0 ? target : (int)(rnd() % NOPS);
            step(k, x, m, false, (BS*)nullptr);
            bad = compare(x, m, "view");
            if (mem[0] != g0 || mem[nb + 1] != g1) { std::printf("view wrote outside its blocks (guard block changed)\n"); bad = 1; }
        }
        if (bad) { std::printf("block type of %zu bits, history:%s\n", W, hist.c_str()); return 1; }
    }
    return 0;
}
