// C10 replay: evaluates the real xcomplex operators on the verifier's counterexample operands and on a grid of special and
// extreme values, and checks the clauses of the contracts natively (naive formulas bit for bit; Annex G clauses for ieee mode).
#include <xtl/xcomplex.hpp>
#include <cstdio>
#include <cstring>
#include <cmath>
#include <cfloat>
#include <cstdint>
static float fb(uint32_t u) { float f; std::memcpy(&f, &u, 4); return f; }
static bool feq(float x, float y) { return x == y || (std::isnan(x) && std::isnan(y)); }
static bool infz(float r, float i) { return std::isinf(r) || std::isinf(i); }
static bool finz(float r, float i) { return std::isfinite(r) && std::isfinite(i); }
static bool zeroz(float r, float i) { return r == 0 && i == 0; }
static bool nannan(float r, float i) { return std::isnan(r) && std::isnan(i); }
static int bad(const char* what, float a, float b, float c, float d, float x, float y)
{ std::printf("%s: (%g + %g i) op (%g + %g i) = (%g, %g)   [bits %08x %08x %08x %08x]\n", what, a, b, c, d, x, y, *(uint32_t*)&a, *(uint32_t*)&b, *(uint32_t*)&c, *(uint32_t*)&d); return 1; }
static int check(float a, float b, float c, float d)
{
    using CF = xtl::xcomplex<float, float, false>; using CT = xtl::xcomplex<float, float, true>;
    volatile float va = a, vb = b, vc = c, vd = d;   // keep the reference formulas in float arithmetic
    { CF r = CF(a, b) * CF(c, d); float x = va * vc - vb * vd, y = va * vd + vb * vc; if (!feq(r.real(), x) || !feq(r.imag(), y)) return bad("naive * differs from (ac-bd, ad+bc)", a, b, c, d, r.real(), r.imag()); }
    { CF r = CF(a, b) + CF(c, d); if (!feq(r.real(), va + vc) || !feq(r.imag(), vb + vd)) return bad("+ differs", a, b, c, d, r.real(), r.imag()); }
    { CF r = CF(a, b) - CF(c, d); if (!feq(r.real(), va - vc) || !feq(r.imag(), vb - vd)) return bad("- differs", a, b, c, d, r.real(), r.imag()); }
    { float e = vc * vc + vd * vd; CF r = CF(a, b) / CF(c, d); float x = (va * vc + vb * vd) / e, y = (vb * vc - va * vd) / e; if (!feq(r.real(), x) || !feq(r.imag(), y)) return bad("naive / differs from the textbook formula", a, b, c, d, r.real(), r.imag()); }
    { float ra = a, rb = b; xtl::xcomplex<float&, float&, false> ref(ra, rb); CF r = ref * CF(c, d), v = CF(a, b) * CF(c, d); if (!feq(r.real(), v.real()) || !feq(r.imag(), v.imag())) return bad("reference closure * differs from value closure", a, b, c, d, r.real(), r.imag());
      ref *= CF(c, d); if (!feq(ra, v.real()) || !feq(rb, v.imag())) return bad("*= through a reference closure did not write the referents", a, b, c, d, ra, rb); }
    { CF r = -CF(a, b); if (!feq(r.real(), -va) || !feq(r.imag(), -vb) || std::signbit(r.real()) != std::signbit(-va)) return bad("unary minus", a, b, 0, 0, r.real(), r.imag()); }
    { bool e = CF(a, b) == CF(c, d); if (e != (a == c && b == d)) return bad("== does not compare both parts", a, b, c, d, e, 0); }
    { CT r = CT(a, b) * CT(c, d); float x = r.real(), y = r.imag();
      if (infz(a, b) && (infz(c, d) || (finz(c, d) && !zeroz(c, d))) && !infz(x, y)) return bad("ieee *: infinity times non-zero finite/infinity is not an infinity", a, b, c, d, x, y);
      if (infz(c, d) && (infz(a, b) || (finz(a, b) && !zeroz(a, b))) && !infz(x, y)) return bad("ieee *: non-zero finite/infinity times infinity is not an infinity", a, b, c, d, x, y);
      if (finz(a, b) && finz(c, d) && nannan(x, y)) return bad("ieee *: finite operands give NaN+NaN i", a, b, c, d, x, y); }
    { CT r = CT(a, b) / CT(c, d); float x = r.real(), y = r.imag();
      if (infz(a, b) && finz(c, d) && !infz(x, y)) return bad("ieee /: infinity / finite is not an infinity", a, b, c, d, x, y);
      if (finz(a, b) && infz(c, d) && std::isfinite(std::fabs(va) + std::fabs(vb)) && !zeroz(x, y)) return bad("ieee /: finite / infinity is not a zero", a, b, c, d, x, y);
      if ((infz(a, b) || (finz(a, b) && !zeroz(a, b))) && zeroz(c, d) && !infz(x, y)) return bad("ieee /: non-zero / zero is not an infinity", a, b, c, d, x, y);
      if (finz(a, b) && finz(c, d) && !zeroz(c, d) && nannan(x, y)) return bad("ieee /: finite operands give NaN+NaN i", a, b, c, d, x, y);
      // scaling: a divisor +-2^k + 0i of any normal magnitude divides each part exactly once
      int ex; if (d == 0 && std::isfinite(c) && c != 0 && std::frexp(std::fabs(c), &ex) == 0.5f && std::fabs(c) >= FLT_MIN && finz(a, b)) { float qx = va / vc, qy = vb / vc; if (!feq(x, qx) || !feq(y, qy)) return bad("ieee /: divisor +-2^k of extreme magnitude: quotient not (a/c, b/c)", a, b, c, d, x, y); } }
    { bool e = CF(a, b) != CF(c, d); if (e != !(a == c && b == d)) return bad("!= is not the negation of ==", a, b, c, d, e, 0); }
    { CF r = a + CF(c, d); if (!feq(r.real(), va + vc) || !feq(r.imag(), vd)) return bad("real + complex differs (dividend/left operand is the real a)", a, 0, c, d, r.real(), r.imag()); }
    { CF r = a - CF(c, d); if (!feq(r.real(), va - vc) || !feq(r.imag(), 0.0f - vd)) return bad("real - complex differs (left operand is the real a)", a, 0, c, d, r.real(), r.imag()); }
    { float e = vc * vc + vd * vd, z = 0.0f; volatile float vz = z; CF r = a / CF(c, d); float x = (va * vc + vz * vd) / e, y = (vz * vc - va * vd) / e;
      if (!feq(r.real(), x) || !feq(r.imag(), y)) return bad("naive real / complex differs from the quotient formula with dividend (a, 0)", a, 0, c, d, r.real(), r.imag()); }
    { CT r = a / CT(c, d); float x = r.real(), y = r.imag();
      if (std::isinf(a) && finz(c, d) && !infz(x, y)) return bad("ieee real / complex: infinity / finite is not an infinity", a, 0, c, d, x, y);
      if (std::isfinite(a) && infz(c, d) && !zeroz(x, y)) return bad("ieee real / complex: finite / infinity is not a zero", a, 0, c, d, x, y);
      if ((std::isinf(a) || (std::isfinite(a) && a != 0)) && zeroz(c, d) && !infz(x, y)) return bad("ieee real / complex: non-zero / zero is not an infinity", a, 0, c, d, x, y);
      if (std::isfinite(a) && finz(c, d) && !zeroz(c, d) && nannan(x, y)) return bad("ieee real / complex: finite operands give NaN+NaN i", a, 0, c, d, x, y);
      int ex; if (d == 0 && std::isfinite(c) && c != 0 && std::frexp(std::fabs(c), &ex) == 0.5f && std::fabs(c) >= FLT_MIN && std::isfinite(a)) { float qx = va / vc; if (!feq(x, qx)) return bad("ieee real / complex: divisor +-2^k is not divided out exactly", a, 0, c, d, x, y); } }
    { CT r = CT(a, b) / c; float x = va / vc, y = vb / vc; if (!feq(r.real(), x) || !feq(r.imag(), y)) return bad("complex / real does not divide both parts (divisor is the real c)", a, b, c, 0, r.real(), r.imag()); }
    return 0;
}
int main()
{
    if (check(fb(CEX_A), fb(CEX_B), fb(CEX_C), fb(CEX_D))) return 1;
    const float V[] = {0.0f, -0.0f, 1.0f, -1.0f, 2.5f, -3.0f, INFINITY, -INFINITY, NAN, FLT_MAX, -FLT_MAX, FLT_MIN, 1e-30f, 3e38f, std::ldexp(1.0f, -140), std::ldexp(1.0f, 120), -std::ldexp(1.0f, 120), std::ldexp(1.0f, -120), -std::ldexp(1.0f, -126)};
    const int N = sizeof V / sizeof V[0];
    for (int i = 0; i < N; ++i) for (int j = 0; j < N; ++j) for (int k = 0; k < N; ++k) for (int l = 0; l < N; ++l) if (check(V[i], V[j], V[k], V[l])) return 1;
    return 0;
}
