"""C03: dynamic bitset and bitset view behave as a resizable sequence of bools."""
import os, re
from xv.unit import Unit
from xv.driver import Job, VERIF
from xv.prop import native_run

PROP = 'C03'
BLK = {8: 'unsigned char', 16: 'unsigned short', 32: 'unsigned int', 64: 'unsigned long'}


def inst(w):
    t = BLK[w]
    return '''#include <xtl/xdynamic_bitset.hpp>
template class xtl::xdynamic_bitset<%(t)s>;
template class xtl::xdynamic_bitset_base<xtl::xdynamic_bitset<%(t)s>>;
template class xtl::xdynamic_bitset_view<%(t)s>;
template class xtl::xdynamic_bitset_base<xtl::xdynamic_bitset_view<%(t)s>>;
using BS = xtl::xdynamic_bitset<%(t)s>;
using BV = xtl::xdynamic_bitset_view<%(t)s>;
using BSB = xtl::xdynamic_bitset_base<BS>;
using BVB = xtl::xdynamic_bitset_base<BV>;
// member templates: named once so that clang instantiates them
void t1(BSB& a, const BSB& b) { a &= b; a |= b; a ^= b; (void)(a == b); (void)(a != b); }
void t2(BVB& a, const BVB& b) { a &= b; a |= b; a ^= b; (void)(a == b); (void)(a != b); }
void t3(BSB& a, const BVB& b) { a &= b; a |= b; a ^= b; (void)(a == b); }
template <class T> bool r1(T& b) { auto r = b[0]; r = true; r.flip(); r &= true; r |= false; r ^= true; bool x = r; bool y = ~r; return x ^ y; }
template <class T> bool r2(const T& b) { auto r = b[0]; bool x = r; bool y = ~r; return x ^ y; }
// free operators returning a temporary: the result owns its storage, the operands (in particular a VIEW's caller memory) are untouched
namespace xv_unit {
BS or_vv(const BVB& a, const BVB& b) { return a | b; }
BS and_vv(const BVB& a, const BVB& b) { return a & b; }
BS xor_vv(const BVB& a, const BVB& b) { return a ^ b; }
BS or_ss(const BSB& a, const BSB& b) { return a | b; }
BS not_v(const BVB& a) { return ~a; }
}
template bool r1<BSB>(BSB&); template bool r1<BVB>(BVB&); template bool r2<BSB>(const BSB&); template bool r2<BVB>(const BVB&);
''' % dict(t=t)


def rec_alias(w):
    tt = re.escape(BLK[w])
    BS, BV = r'xtl::xdynamic_bitset<%s>' % tt, r'xtl::xdynamic_bitset_view<%s>' % tt
    return [
        (BS, 'bs'), (r'xtl::xdynamic_bitset_base<%s>' % BS, 'bsb'),
        (BV, 'bv'), (r'xtl::xdynamic_bitset_base<%s>' % BV, 'bvb'),
        (r'xtl::xbitset_reference<%s,false>' % BS, 'bsref'), (r'xtl::xbitset_reference<%s,true>' % BS, 'bscref'),
        (r'xtl::xbitset_reference<%s,false>' % BV, 'bvref'), (r'xtl::xbitset_reference<%s,true>' % BV, 'bvcref'),
        (r'xtl::xbitset_iterator<%s,false>' % BS, 'bsit'), (r'xtl::xbitset_iterator<%s,true>' % BS, 'bscit'),
        (r'xtl::xbitset_iterator<%s,false>' % BV, 'bvit'), (r'xtl::xbitset_iterator<%s,true>' % BV, 'bvcit'),
        (r'tcb::span<%s,-1>' % tt, 'span'), (r'tcb::detail::span_storage<%s,-1>' % tt, 'sto'),
    ]


SKIP = ('initializer_list', )


def select(fn, q, lw):
    if any(k in fn['type']['qualType'] for k in SKIP) or fn.get('name') in ('get_allocator', 'max_size', 'capacity', 'reserve', 'derived_cast'):
        return False      # listed in the evidence as not under contract
    if q.startswith('xv_unit::'):
        return True
    return q.startswith('xtl::xdynamic_bitset_base::') or q.startswith('xtl::xdynamic_bitset::') or \
        q.startswith('xtl::xdynamic_bitset_view::') or q.startswith('xtl::xbitset_reference::')


class WUnit(Unit):
    unit_roots = True


def alias(fn, q):
    return 'w_' + fn.get('name') if q.startswith('xv_unit::') else None


def build(tier, workdir, seed):
    from props import C03_contracts
    units, jobs = [], []
    for w in ([8] if tier == 'quick' else [8, 16, 32, 64]):
        S = BLK[w].replace(' ', '_')
        pre = '#define XV_W %dul\ntypedef %s xv_blk;\n#define XV_GB (xv_g / XV_W)\n#define XV_FILL_OFF xv_a4\n' % (w, BLK[w])
        ctext = C03_contracts.generate(S) + C03_contracts.wrappers()
        u = WUnit('bitset%d' % w, inst(w), select, ctext, rec_alias(w), defines=['NDEBUG'], pre_defs=pre, fn_alias=alias).lower(workdir)
        units.append(u)
        cases = [('r%d' % k, ['XV_CASE_R=%d' % k]) for k in range(w)]
        # the shift proofs are the expensive ones (array theory, ~14 min in one solver process): their obligations are checked
        # in 6 groups by 6 solver processes in parallel.  (--sat-solver cadical was faster but returned inconsistent verdicts in
        # all-properties mode on this build - a property reported FAILURE there verified on its own - so it is not used.)
        extra = {a: {'timeout': 2400, 'split': 6} for a in ('bsb__op_shl_assign__ul', 'bsb__op_shr_assign__ul', 'bvb__op_shl_assign__ul', 'bvb__op_shr_assign__ul')}
        jobs += u.contract_jobs(PROP, timeout=900, inline_all=True, extra=extra)
    return {'jobs': jobs, 'units': units,
            'trusted_base': sorted(set(sum([list(u.std.used) for u in units], []))) + [
                'clang 14 AST; xtl2c lowering rules (DESIGN.md 3.2)',
                'std::vector / std::fill model in model/xv_vec.h: C code with loop contracts, inlined and discharged inside every proof (not assumed); reallocation always yields a new block; pop_back/clear keep the block (capacity slack)'],
            'assumptions': ['block count bounded by XV_MAXBLK = 10^6 blocks (heap storage model); every size below that bound, every bit index (ghost), every shift amount in size_t',
                            'views are lowered with NDEBUG (span contract checks off, raw pointer semantics) so that an access outside the covered blocks is a pointer-obligation failure rather than a std::terminate',
                            'preconditions taken from std::vector<bool>: pos < size() for set/reset/flip(pos) and operator[]; equal sizes for &= |= ^=; non-empty for front/back/pop_back',
                            'existential answers (all() false, any() true, == false) are stated through a ghost witness block written by RET hooks',
                            'count(): result == sum of per-byte population counts of the block array (ghost accumulator, independent bit-sum formula); with the zero-tail invariant this is the number of set valid bits',
                            'induction over operation histories is the meta-argument: every operation is proved to preserve wf and to realise its abstract counterpart from any wf state'],
            'coverage_extra': {'block_widths': [8] if tier == 'quick' else [8, 16, 32, 64], 'owners': ['xdynamic_bitset (vector)', 'xdynamic_bitset_view (span)'],
                               'not_reached': ['operator<< / operator>> returning temporaries (copy + in-place operation, both under contract separately; | & ^ ~ are under contract through wrappers)',
                                               'initializer_list constructors/assign, block-iterator constructors/assign, swap, reserve/capacity/max_size/get_allocator',
                                               'xbitset_iterator (decided under C12)', 'termination of views in non-NDEBUG builds (span contract checks call std::terminate)']}}


SAN = ['-fsanitize=address,undefined', '-fno-sanitize=shift,null', '-fno-sanitize-recover=all', '-O1']


def replay(ctx, job, ob, steps, base):
    """replay search on the real header: random operation histories against std::vector<bool>, ending with the operation
    whose contract failed (loop-invariant failures give no concrete execution, so the search stands in for the trace)"""
    m = re.match(r'bitset(\d+)__(?:bs|bv|bsb|bvb|bsref|bvref|bscref|bvcref)__(\w+?)__', job.name)
    w = int(m.group(1)) if m else 8
    op = m.group(2) if m else ''
    if job.enforce:
        op = re.sub(r'^(?:bs|bv|bsb|bvb|bsref|bvref|bscref|bvcref)__', '', job.enforce)
    if op.startswith('w_'):
        op = 'w_'       # the free operators | & ^ ~ (wrapper jobs)
    src = open(os.path.join(VERIF, 'props', 'C03_replay.cpp')).read()
    seed = int(os.environ.get('VERIF_SEED', '0') or 0)
    outs = []
    for opname in (op, ''):
        prog = '#define BLOCK %s\n#define OP "%s"\n#define SEED %du\n' % (BLK[w], opname, seed) + src
        rc, out = native_run(prog, base, extra=SAN)
        outs.append('search ending with operation "%s": rc=%s\n%s' % (opname or 'any', rc, (out or '')[-1500:]))
        if rc not in (0, None):
            return (True, '\n'.join(outs) + '\nprogram: %s.cpp' % base)
    return (False, '\n'.join(outs))
