// C11 replay search on the real headers: constructor / resize / write histories on xoptional_vector, xoptional_array and
// xcomplex_vector against plain models (vector of pairs); after every step the two storages must have the length of size(),
// every access path (operator[], at, front/back, iterators forward/const/reverse) must show the model's pair, at(size()) must throw.
// Built with AddressSanitizer.  Exit 1 = mismatch (printed with the history).
#include <xtl/xoptional_sequence.hpp>
#include <xtl/xcomplex_sequence.hpp>
#include <vector>
#include <string>
#include <cstdio>
#include <stdexcept>
#ifndef SEED
#define SEED 0u
#endif
static unsigned rs = SEED * 2654435761u + 99u;
static unsigned rnd() { rs = rs * 1664525u + 1013904223u; return rs >> 8; }
static std::string hist;
static void note(const char* op, long a = -1, long b = -1, long c = -1) { char buf[96]; std::snprintf(buf, sizeof buf, " %s(%ld,%ld,%ld)", op, a, b, c); hist += buf; }
using OV = xtl::xoptional_vector<int>;
using P = std::pair<int, bool>;
template <class C> static int check_opt(C& v, const std::vector<P>& m, const char* what)
{
    const C& cv = v;
    if (v.size() != m.size() || v.value().size() != m.size() || v.has_value().size() != m.size() || v.empty() != m.empty())
    { std::printf("%s: size() = %zu, value storage %zu, flag storage %zu, expected %zu\n", what, v.size(), v.value().size(), v.has_value().size(), m.size()); return 1; }
    for (std::size_t i = 0; i < m.size(); ++i)
    {
        bool f1 = v[i].has_value(), f2 = cv[i].has_value(), f3 = v.at(i).has_value(), f4 = cv.at(i).has_value();
        if (f1 != m[i].second || f2 != f1 || f3 != f1 || f4 != f1) { std::printf("%s: element %zu present = %d/%d/%d/%d, expected %d\n", what, i, f1, f2, f3, f4, (int)m[i].second); return 1; }
        if (v[i].value() != m[i].first || cv[i].value() != m[i].first || v.at(i).value() != m[i].first || cv.at(i).value() != m[i].first) { std::printf("%s: element %zu value = %d, expected %d\n", what, i, v[i].value(), m[i].first); return 1; }
    }
    if (!m.empty())
    {
        if (v.front().value() != m.front().first || v.front().has_value() != m.front().second || v.back().value() != m.back().first || v.back().has_value() != m.back().second
            || cv.front().value() != m.front().first || cv.back().has_value() != m.back().second) { std::printf("%s: front()/back() do not show the first/last pair\n", what); return 1; }
    }
    bool thrown = false; try { (void)v.at(m.size()); } catch (std::out_of_range&) { thrown = true; }
    if (!thrown) { std::printf("%s: at(size()) does not throw\n", what); return 1; }
    return 0;
}
template <class C> static int check_iters(C& v, const std::vector<P>& m, const char* what)
{
    const C& cv = v; std::size_t i = 0;
    for (auto it = v.begin(); it != v.end(); ++it, ++i) if (i >= m.size() || (*it).value() != m[i].first || (*it).has_value() != m[i].second) { std::printf("%s: iterator shows a wrong pair at %zu\n", what, i); return 1; }
    if (i != m.size()) { std::printf("%s: begin()..end() visits %zu elements, expected %zu\n", what, i, m.size()); return 1; }
    i = 0; for (auto it = cv.cbegin(); it != cv.cend(); ++it, ++i) if (i >= m.size() || (*it).value() != m[i].first || (*it).has_value() != m[i].second) { std::printf("%s: const iterator shows a wrong pair at %zu\n", what, i); return 1; }
    i = 0; for (auto it = v.rbegin(); it != v.rend(); ++it, ++i) { std::size_t k = m.size() - 1 - i; if (i >= m.size() || (*it).value() != m[k].first || (*it).has_value() != m[k].second) { std::printf("%s: reverse iterator shows a wrong pair at %zu\n", what, i); return 1; } }
    if (i != m.size()) { std::printf("%s: rbegin()..rend() visits %zu elements\n", what, i); return 1; }
    // random-access jumps in both directions keep value and flag paired (it += n, it -= n, it + n, it - n, it[n])
    for (std::size_t a = 0; a < m.size(); ++a) for (std::size_t b = 0; b < m.size(); ++b) {
        auto it = v.begin() + (std::ptrdiff_t)a; std::ptrdiff_t d = (std::ptrdiff_t)b - (std::ptrdiff_t)a;
        auto j1 = it; j1 += d; auto j2 = it; j2 -= -d; auto j3 = it + d; auto j4 = it - (-d);
        for (auto* j : {&j1, &j2, &j3, &j4}) if ((**j).value() != m[b].first || (**j).has_value() != m[b].second || !(*j == v.begin() + (std::ptrdiff_t)b) || (*j - it) != d)
            { std::printf("%s: iterator jump from %zu by %ld shows a wrong pair / position\n", what, a, (long)d); return 1; }
        if (it[d].value() != m[b].first || it[d].has_value() != m[b].second) { std::printf("%s: it[n] from %zu by %ld shows a wrong pair\n", what, a, (long)d); return 1; }
        if (m.size() > 12) break; }
    return 0;
}
static int run_optional_vector()
{
    for (int it = 0; it < 3000; ++it)
    {
        hist.clear(); OV v; std::vector<P> m; int bad = 0;
        switch (rnd() % 3) {
        case 0: note("OV()"); break;
        case 1: { std::size_t n = rnd() % 20; int x = (int)rnd(); v = OV(n, x); m.assign(n, P(x, true)); note("OV(n,v)", (long)n, x); break; }
        default: { std::size_t n = rnd() % 20; int x = (int)rnd(); bool f = rnd() & 1; v = OV(n, xtl::xoptional<int>(x, f)); m.assign(n, P(x, f)); note("OV(n,opt)", (long)n, x, f); break; } }
        int len = 1 + rnd() % 6;
        for (int s = 0; s < len && !bad; ++s)
        {
            std::size_t n = m.size(), pos = n ? rnd() % n : 0; int x = (int)rnd(); bool f = rnd() & 1;
            std::size_t tgt[] = {0, 1, 7, 8, 9, 16, 17, n + 1, n ? n - 1 : 0, n + 9, (std::size_t)(rnd() % 40)}; std::size_t t = tgt[rnd() % 11];
            switch (rnd() % 8) {
            case 0: v.resize(t); m.resize(t, P(0, false)); note("resize", (long)t); break;
            case 1: v.resize(t, x); m.resize(t, P(x, true)); note("resize_v", (long)t, x); break;
            case 2: v.resize(t, xtl::xoptional<int>(x, f)); m.resize(t, P(x, f)); note("resize_opt", (long)t, x, f); break;
            case 3: if (n) { v[pos] = xtl::xoptional<int>(x, f); m[pos] = P(x, f); note("[]=", (long)pos, x, f); } break;
            case 4: if (n) { v.at(pos).value() = x; m[pos].first = x; note("at.value=", (long)pos, x); } break;
            case 5: if (n) { v[pos].has_value() = f; m[pos].second = f; note("[].has_value=", (long)pos, f); } break;
            case 6: if (n) { auto i2 = v.begin() + (std::ptrdiff_t)pos; (*i2).value() = x; (*i2).has_value() = f; m[pos] = P(x, f); note("*it=", (long)pos, x, f); } break;
            default: if (n) { v.back() = xtl::xoptional<int>(x, f); m.back() = P(x, f); v.front().value() = x + 1; m.front().first = x + 1; note("back/front=", x, f); } break; }
            bad = check_opt(v, m, "xoptional_vector") || check_iters(v, m, "xoptional_vector");
        }
        if (!bad) { OV c(v); if (!(c == v) || (c != v)) { std::printf("a copy does not compare equal\n"); bad = 1; }
            if (!bad && !m.empty()) { std::size_t p = rnd() % m.size(); OV d(v); d[p].has_value() = !m[p].second; if (d == v) { std::printf("== ignores a flag difference at %zu\n", p); bad = 1; }
                                      OV e(v); e[p].value() = m[p].first + 1; if (e == v) { std::printf("== ignores a value difference at %zu\n", p); bad = 1; } }
            if (!bad) { OV g(v); g.resize(m.size() + 1); if (g == v) { std::printf("== ignores a size difference\n"); bad = 1; } } }
        if (bad) { std::printf("history:%s\n", hist.c_str()); return 1; }
    }
    return 0;
}
static int run_optional_array()
{
    using OA = xtl::xoptional_array<int, 3>;
    { OA a; std::vector<P> m(3, P(0, false)); hist = " xoptional_array<int,3>()";
      if (a.size() != 3 || a.has_value().size() != 3) { std::printf("xoptional_array(): size() = %zu, flag storage has %zu elements\nhistory:%s\n", a.size(), a.has_value().size(), hist.c_str()); return 1; }
      for (std::size_t i = 0; i < 3; ++i) if (a[i].has_value()) { std::printf("xoptional_array(): element %zu is not missing\n", i); return 1; } }
    { OA a(3, 42); std::vector<P> m(3, P(42, true)); hist = " xoptional_array<int,3>(3, 42)"; if (check_opt(a, m, "xoptional_array")) { std::printf("history:%s\n", hist.c_str()); return 1; }
      a[1] = xtl::xoptional<int>(7, false); m[1] = P(7, false); if (check_opt(a, m, "xoptional_array")) { std::printf("history:%s [1]=(7,missing)\n", hist.c_str()); return 1; } }
    { OA a(3, xtl::xoptional<int>(5, false)); std::vector<P> m(3, P(5, false)); hist = " xoptional_array<int,3>(3, missing 5)"; if (check_opt(a, m, "xoptional_array")) { std::printf("history:%s\n", hist.c_str()); return 1; } }
    return 0;
}
static int run_complex_vector()
{
    using CV = xtl::xcomplex_vector<double>; using C = std::pair<double, double>;
    for (int it = 0; it < 3000; ++it)
    {
        hist.clear(); CV v; std::vector<C> m; int bad = 0;
        switch (rnd() % 3) {
        case 0: note("CV()"); break;
        case 1: { std::size_t n = rnd() % 20; v = CV(n); m.assign(n, C(0, 0)); note("CV(n)", (long)n); break; }
        default: { std::size_t n = rnd() % 20; double a = rnd() % 100, b = 100 + rnd() % 100; v = CV(n, xtl::xcomplex<double>(a, b)); m.assign(n, C(a, b)); note("CV(n,c)", (long)n, (long)a, (long)b); break; } }
        int len = 1 + rnd() % 6;
        for (int s = 0; s < len && !bad; ++s)
        {
            std::size_t n = m.size(), pos = n ? rnd() % n : 0; double a = rnd() % 100, b = 100 + rnd() % 100;
            std::size_t tgt[] = {0, 1, 7, n + 1, n ? n - 1 : 0, n + 9, (std::size_t)(rnd() % 40)}; std::size_t t = tgt[rnd() % 7];
            switch (rnd() % 5) {
            case 0: v.resize(t); m.resize(t, C(0, 0)); note("resize", (long)t); break;
            case 1: v.resize(t, xtl::xcomplex<double>(a, b)); m.resize(t, C(a, b)); note("resize_c", (long)t, (long)a, (long)b); break;
            case 2: { double ra = a, rb = b; xtl::xcomplex<double&, double&> ref(ra, rb); v.resize(t, ref); m.resize(t, C(a, b)); note("resize_ref", (long)t, (long)a, (long)b); break; }
            case 3: if (n) { v[pos].real() = a; v[pos].imag() = b; m[pos] = C(a, b); note("[]=", (long)pos, (long)a, (long)b); } break;
            default: if (n) { v.at(pos).real() = a; v.back().imag() = b; m[pos].first = a; m.back().second = b; note("at.real=/back.imag=", (long)pos, (long)a, (long)b); } break; }
            const CV& cv = v;
            if (v.size() != m.size() || v.real().size() != m.size() || v.imag().size() != m.size()) { std::printf("xcomplex_vector: size() = %zu, real storage %zu, imaginary storage %zu, expected %zu\n", v.size(), v.real().size(), v.imag().size(), m.size()); bad = 1; }
            for (std::size_t i = 0; i < m.size() && !bad; ++i)
                if (v[i].real() != m[i].first || v[i].imag() != m[i].second || cv.at(i).real() != m[i].first || cv[i].imag() != m[i].second) { std::printf("xcomplex_vector: element %zu = (%g,%g), expected (%g,%g)\n", i, (double)v[i].real(), (double)v[i].imag(), m[i].first, m[i].second); bad = 1; }
            std::size_t k = 0; for (auto i2 = v.begin(); i2 != v.end() && !bad; ++i2, ++k) if (k >= m.size() || (*i2).real() != m[k].first || (*i2).imag() != m[k].second) { std::printf("xcomplex_vector: iterator shows a wrong pair at %zu\n", k); bad = 1; }
            bool thrown = false; try { (void)v.at(m.size()); } catch (std::out_of_range&) { thrown = true; }
            if (!bad && !thrown) { std::printf("xcomplex_vector: at(size()) does not throw\n"); bad = 1; }
        }
        if (!bad) { CV c(v); if (!(c == v)) { std::printf("a copy of the complex vector does not compare equal\n"); bad = 1; }
            if (!bad && !m.empty()) { std::size_t p = rnd() % m.size(); CV d(v); d[p].imag() = m[p].second + 1; if (d == v) { std::printf("== ignores an imaginary-part difference at %zu\n", p); bad = 1; } }
            if (!bad) { CV g(v); g.resize(m.size() + 1); if (g == v || v == g || !(v != g)) { std::printf("== ignores a size difference (%zu vs %zu elements)\n", v.size(), g.size()); bad = 1; } } }
        if (bad) { std::printf("history:%s\n", hist.c_str()); return 1; }
    }
    return 0;
}
int main() { return run_optional_array() || run_optional_vector() || run_complex_vector(); }
