"""Trusted model of the libstdc++ / libc pieces xtl leans on (DESIGN.md 3.3).

Every entry used in a run is recorded in `used` and ends up in the evidence file's trusted_base.
The C side of the model lives in /verif/model/xv_std.h.
"""
import re
from .xtl2c import Unsupported, san, dq, norm_t, strip_cv, BUILTIN, split_top


class StdModel:
    def __init__(self):
        self.used = set()
        self.vec_types = {}     # C element type -> typedef name
        self.arr_types = {}     # (elem ctype, N) -> typedef name
        self.rit_types = {}
        self.chr_types = set()
        self.need_chr = False
        self.strs_mode = False   # std::string as abstract value with sampled contracts (model/xv_strs.h) instead of {data,size} memory

    # ----- types -----
    def vec_name(self, el_ct):
        nm = 'xv_vec_' + san(el_ct.replace('*', '_p'))
        self.vec_types[el_ct] = nm
        return nm

    def arr_name(self, el_ct, n):
        nm = 'xv_arr_%s_%s' % (san(el_ct.replace('*', '_p')), n)
        self.arr_types[(el_ct, n)] = nm
        return nm

    def type(self, t, em):
        t = re.sub(r'\s+', ' ', t).strip()
        # clang prints std names without the namespace inside some sugared types (typename std::remove_reference<vector<int> &>::type)
        t = re.sub(r'(?<![\w:])(vector|array|allocator)<', r'std::\1<', t)
        if t in ('std::size_t', 'size_t', 'std::make_unsigned_t<long>'):
            return 'unsigned long'
        if t in ('std::ptrdiff_t', 'ptrdiff_t'):
            return 'long'
        if t in ('uint8_t', 'std::uint8_t'):
            return 'unsigned char'
        m = re.fullmatch(r'std::vector<(.+?)(, ?std::allocator<.+>)?>', t)
        if m:
            self.used.add('std::vector (storage model {data,size})')
            return self.vec_name(em.ctype(m.group(1)))
        m = re.fullmatch(r'std::array<(.+), ?(\d+)(?:UL|ul)?>', t)
        if m:
            self.used.add('std::array (C array in a struct)')
            return self.arr_name(em.ctype(m.group(1)), m.group(2))
        if re.fullmatch(r'std::(__cxx11::)?basic_string<.*>', t) or t == 'std::string':
            self.used.add('std::string (storage model {data,size}, capacity bound XV_STR_CAP)')
            return 'xv_str'
        m = re.fullmatch(r'__gnu_cxx::__normal_iterator<(const )?(.+?) ?\*, ?std::(vector|__cxx11::basic_string|basic_string)<.+>>', t)
        if m:
            return em.ctype(m.group(2)) + '*'
        m = re.fullmatch(r'std::initializer_list<(.+)>', t)
        if m:
            self.used.add('std::initializer_list ({data,size})')
            return self.vec_name(em.ctype(m.group(1)))
        if re.fullmatch(r'std::hash<(unsigned |signed )?(char|short|int|long|long long)>', t):
            self.used.add('std::hash<integer> (an uninterpreted function of the value)')
            return 'xv_empty'
        if t.startswith('std::allocator<') or t.startswith('std::char_traits<') or t.startswith('std::integral_constant<') \
                or t in ('std::true_type', 'std::false_type') or t.startswith('std::is_') or t.endswith('_tag'):
            return 'xv_empty'
        m = re.fullmatch(r'std::reverse_iterator<(.+)>', t)
        if m:
            self.used.add('std::reverse_iterator (struct {base})')
            el = em.ctype(m.group(1))
            nm = 'xv_rit_' + san(el.replace('*', '_p'))
            self.rit_types[el] = nm
            return nm
        return None

    def is_value_type(self, t, em):
        """std types that are plain values in the model (copy = struct assignment)"""
        t = strip_cv(t)
        return t.startswith('__gnu_cxx::__normal_iterator') or t.startswith('std::reverse_iterator') \
            or t.startswith('std::integral_constant') or t in ('std::true_type', 'std::false_type')

    def owner(self, callee, em):
        rec = em.tu.rec_of_member.get(callee['id'])
        if rec is None:
            pid = callee.get('parentDeclContextId')
            rec = em.tu.byid.get(pid)
        return em.tu.qualname(rec) if rec else ''

    # ----- hooks (overridable per unit) -----
    def method(self, callee, objp, obj, args, em, n):
        own = self.owner(callee, em)
        name = callee.get('name')
        if not (own.startswith('std::') or own.startswith('__gnu_cxx::')):
            return None
        if own == 'std::hash' and name == 'operator()':
            return 'XV_STDHASH((unsigned long)%s)' % em.rv_or_lv(args[0])
        if own == 'std::vector':
            self.used.add('std::vector::' + name)
            a = [em.rv_or_lv(x) for x in args]
            vt = self.type(strip_cv(dq(obj['type'])).rstrip('&* '), em) or ''
            S = vt[len('xv_vec_'):]
            el = [k for k, v in self.vec_types.items() if v == vt]
            el = el[0] if el else 'int'
            if name == 'operator[]':
                return '(&XV_VEC_AT(%s, %s))' % (objp, a[0])
            if name == 'at':
                return em.model_call('xv_vec_%s_at' % S, [objp, a[0]], el + '*', maythrow=True)
            if name == 'size':
                return '((%s)->size)' % objp
            if name == 'back':
                return '(&XV_VEC_AT(%s, (%s)->size - 1))' % (objp, objp)
            if name == 'front':
                return '(&XV_VEC_AT(%s, 0))' % objp
            if name in ('begin', 'cbegin'):
                return '((%s)->data)' % objp
            if name in ('end', 'cend'):
                return '((%s)->data + (%s)->size)' % (objp, objp)
            if name == 'data':
                return '((%s)->data)' % objp
            if name == 'empty':
                return '((%s)->size == 0)' % objp
            if name == 'resize':
                return 'xv_vec_%s_resize(%s, %s, %s)' % (S, objp, a[0], a[1] if len(a) > 1 else '0')
            if name == 'clear':
                return 'xv_vec_%s_clear(%s)' % (S, objp)
            if name == 'pop_back':
                return 'xv_vec_%s_pop_back(%s)' % (S, objp)
            if name == 'reserve':
                return '((void)0)'
            if name in ('max_size', 'capacity'):
                return '((unsigned long)XV_MAXBLK)'
            if name == 'get_allocator':
                return 'xv_empty_value'
            if name == 'swap':
                return 'xv_vec_%s_swap(%s, %s)' % (S, objp, em.addr(args[0]))
            raise Unsupported('std::vector::' + name)
        if own in ('std::basic_string', 'std::__cxx11::basic_string'):
            self.used.add('std::string::' + name)
            # defaulted trailing arguments of the members modelled here are all npos
            a = ['(~0ul)' if em.skip_wrappers(x).get('kind') == 'CXXDefaultArgExpr' else em.rv_or_lv(x) for x in args]
            if self.strs_mode and name not in ('size', 'length', 'empty', 'find_last_of', 'rfind', 'substr', 'assign', 'operator='):
                raise Unsupported('std::string::' + name + ' in the abstract-value string model')
            if name == 'push_back':
                return 'xv_str_push_back(%s, %s)' % (objp, a[0])
            if name in ('size', 'length'):
                return '((%s)->size)' % objp
            if name in ('begin', 'cbegin', 'data', 'c_str'):
                return '((%s)->data)' % objp
            if name in ('end', 'cend'):
                return '((%s)->data + (%s)->size)' % (objp, objp)
            if name == 'operator[]':
                return '(&(%s)->data[%s])' % (objp, a[0])
            if name == 'empty':
                return '((%s)->size == 0)' % objp
            ptypes = [em.ctype(dq(x['type'])) for x in args]
            if name in ('find_last_of', 'rfind') and len(a) == 2:
                if ptypes[0] == 'char':
                    return 'xv_strs_flo_ch(%s, %s, %s)' % (objp, a[0], a[1])
                if ptypes[0].endswith('*') and name == 'find_last_of':
                    return 'xv_strs_flo_set(%s, %s, %s)' % (objp, a[0], a[1])
            if name == 'substr' and len(a) == 2:
                return em.model_call('xv_strs_substr', [objp, a[0], a[1]], 'xv_str', maythrow=True)
            if name == 'assign' and len(a) == 2 and ptypes[0].endswith('*'):
                return '(xv_strs_assign_n(%s, %s, %s), %s)' % (objp, a[0], a[1], objp)
            if name == 'operator=' and len(a) == 1 and ptypes[0].endswith('*'):
                return '(xv_strs_assign_cstr(%s, %s), %s)' % (objp, a[0], objp)
            raise Unsupported('std::string::' + name + '(' + ', '.join(ptypes) + ')')
        if own == 'std::array':
            self.used.add('std::array::' + name)
            a = [em.rv_or_lv(x) for x in args]
            if name == 'operator[]':
                return '(&(%s)->a[%s])' % (objp, a[0])
            if name == 'fill':
                val = em.lv(args[0]) if args[0].get('valueCategory') != 'prvalue' else em.rv(args[0])
                at = self.type(strip_cv(dq(obj['type'])).rstrip('&* '), em) or ''
                arr = [k for k, v in self.arr_types.items() if v == at]
                if arr and int(arr[0][1]) <= 16:
                    # small arrays: element-wise assignments (complete, no array primitive)
                    return '(%s)' % ', '.join('(%s)->a[%d] = %s' % (objp, k, val) for k in range(int(arr[0][1])))
                return 'XV_ARR_FILL(%s, %s)' % (objp, val)
            if name == 'data' or name == 'begin':
                return '(&(%s)->a[0])' % objp
            if name == 'size':
                return '(sizeof((%s)->a)/sizeof((%s)->a[0]))' % (objp, objp)
            if name == 'end':
                return '(&(%s)->a[0] + sizeof((%s)->a)/sizeof((%s)->a[0]))' % (objp, objp, objp)
            NEL = '(sizeof((%s)->a)/sizeof((%s)->a[0]))' % (objp, objp)
            if name == 'front':
                return '(&(%s)->a[0])' % objp
            if name == 'back':
                return '(&(%s)->a[%s - 1])' % (objp, NEL)
            if name == 'empty':
                return '(%s == 0)' % NEL
            if name == 'max_size':
                return NEL
            if name == 'at':
                el = em.ctype(dq(n['type'])) if n is not None else 'int'
                return em.model_call('XV_ARR_AT', ['(%s)->a' % objp, NEL, a[0]], el.rstrip('*').strip() + '*', maythrow=True)
            raise Unsupported('std::array::' + name)
        if own == '__gnu_cxx::__normal_iterator':
            a = [em.rv_or_lv(x) for x in args]
            if name == 'operator+':
                return '(*%s + %s)' % (objp, a[0])
            if name == 'operator-':
                return '(*%s - %s)' % (objp, a[0])
            if name == 'operator*':
                return '(*%s)' % objp
            if name == 'operator++':
                return '(++(*%s), %s)' % (objp, objp) if not args else '((*%s)++)' % objp
            if name == 'operator--':
                return '(--(*%s), %s)' % (objp, objp) if not args else '((*%s)--)' % objp
            if name == 'operator+=':
                return '(*%s += %s, %s)' % (objp, a[0], objp)
            if name == 'operator-=':
                return '(*%s -= %s, %s)' % (objp, a[0], objp)
            if name == 'operator[]':
                return '(&(*%s)[%s])' % (objp, a[0])
            if name == 'base':
                return objp
        raise Unsupported('std method %s::%s' % (own, name))

    FUN_MAP = {
        'memcpy': 'memcpy', 'std::memcpy': 'memcpy', 'memset': 'memset', 'std::memset': 'memset',
        'std::strlen': 'xv_strlen', 'strlen': 'xv_strlen', 'abort': 'xv_abort', 'std::abort': 'xv_abort',
        'std::terminate': 'xv_abort',
    }

    def function(self, callee, args, em, n):
        q = em.tu.qualname(callee)
        f = callee.get('_file') or ''
        if em.tu.in_repo(callee):
            return None
        if q in self.FUN_MAP:
            self.used.add(q)
            a = [em.rv_or_lv(x) for x in args]
            return '%s(%s)' % (self.FUN_MAP[q], ', '.join(a))
        if q.startswith('__gnu_cxx::operator') and len(args) == 2:
            # comparison / difference of two __normal_iterators (pointers in the model)
            op = q[len('__gnu_cxx::operator'):]
            self.used.add('__normal_iterator ' + op)
            return '(%s %s %s)' % (em.lv(args[0]), op, em.lv(args[1]))
        if q in ('snprintf', 'std::snprintf', 'sprintf', 'std::sprintf'):
            self.used.add('exception message text dropped (snprintf)')
            return '0'
        if q in ('std::move', 'std::forward'):
            return em.addr(args[0])
        if q == 'std::operator+' and len(args) == 2 and self.type(strip_cv(dq(args[0]['type'])).rstrip('& '), em) == 'xv_str' and em.ctype(dq(args[1]['type'])) == 'char':
            self.used.add('std::operator+(std::string, char)')
            return 'xv_strs_plus_ch(%s, %s)' % (em.addr(args[0]), em.rv_or_lv(args[1]))
        if q in ('std::operator==', 'std::operator!=') and len(args) == 2:
            vt = self.type(strip_cv(dq(args[0]['type'])).rstrip('& '), em) or ''
            if vt.startswith('xv_vec_'):
                self.used.add(q + '(std::vector, std::vector)')
                return '(%sxv_vec_%s_eq(%s, %s))' % ('!' if q.endswith('!=') else '', vt[len('xv_vec_'):], em.addr(args[0]), em.addr(args[1]))
            arr = [k for k, v in self.arr_types.items() if v == vt]
            if arr and int(arr[0][1]) <= 16:
                self.used.add(q + '(std::array, std::array): element-wise, N = %s' % arr[0][1])
                x, y = em.addr(args[0]), em.addr(args[1])
                return '(%s(%s))' % ('!' if q.endswith('!=') else '', ' && '.join('(%s)->a[%d] == (%s)->a[%d]' % (x, k, y, k) for k in range(int(arr[0][1]))))
        if q in ('std::numeric_limits::min', 'std::numeric_limits::max') and not args:
            # the specialisation is read from the type of the call expression (long / int / long long ...)
            ct = em.ctype(dq(n['type'])) if n is not None else ''
            tab = {'long': ('(-9223372036854775807L - 1)', '9223372036854775807L'), 'long long': ('(-9223372036854775807LL - 1)', '9223372036854775807LL'),
                   'int': ('(-2147483647 - 1)', '2147483647'), 'unsigned int': ('0u', '4294967295u'), 'unsigned long': ('0ul', '18446744073709551615ul')}
            if ct in tab:
                self.used.add(q + '<%s>' % ct)
                return tab[ct][0 if q.endswith('min') else 1]
        if q in ('abs', 'std::abs', 'labs', 'std::labs') and len(args) == 1 and em.ctype(dq(args[0]['type'])) in ('int', 'long'):
            self.used.add('std::abs(integer)')
            v = em.rv_or_lv(args[0])
            return '((%s) < 0 ? -(%s) : (%s))' % (v, v, v)
        if q in ('std::begin', 'std::end', 'std::cbegin', 'std::cend') and len(args) == 1:
            vt = self.type(strip_cv(dq(args[0]['type'])).rstrip('& '), em) or ''
            p0 = em.addr(args[0])
            self.used.add(q)
            if vt.startswith('xv_vec_'):
                return '((%s)->data)' % p0 if q.endswith('begin') else '((%s)->data + (%s)->size)' % (p0, p0)
            if vt.startswith('xv_arr_'):
                return '(&(%s)->a[0])' % p0 if q.endswith('begin') else '(&(%s)->a[0] + sizeof((%s)->a)/sizeof((%s)->a[0]))' % (p0, p0, p0)
        if q == 'std::equal' and len(args) == 3:
            ct = em.ctype(dq(args[0]['type']))
            if ct.endswith('*'):
                self.used.add('std::equal(first1, last1, first2) on pointer iterators')
                S = san(ct[:-1].replace('const', '').strip())
                return 'xv_equal_%s(%s)' % (S, ', '.join(em.rv_or_lv(x) for x in args))
        if q in ('readlink',):
            self.used.add('readlink (POSIX): contract in the unit')
            return 'xv_readlink(%s)' % ', '.join(em.rv_or_lv(x) for x in args)
        if q in ('memset', 'std::memset'):
            self.used.add(q)
            return 'memset(%s)' % ', '.join(em.rv_or_lv(x) for x in args)
        if q == 'std::addressof' or q == 'std::__addressof':
            return em.addr(args[0])
        if q.startswith('std::char_traits::') or q in ('std::copy', 'std::copy_backward'):
            self.used.add(q)
            self.need_chr = True
            nm = q.split('::')[-1]
            a = [em.rv_or_lv(x) for x in args]
            pt = [x for x in args if em.ctype(dq(x['type'])).endswith('*')]
            if not pt and nm not in ('eq', 'lt', 'to_int_type', 'eq_int_type'):
                raise Unsupported(q + ' without pointer arguments')
            S = san(em.ctype(dq(pt[0]['type']))[:-1].strip()) if pt else 'char'
            self.chr_types.add(S)
            if q == 'std::copy':
                return 'xv_copy_fwd_%s(%s, %s, (unsigned long)(%s - %s))' % (S, a[2], a[0], a[1], a[0])
            if q == 'std::copy_backward':
                return 'xv_copy_bwd_%s(%s, (unsigned long)(%s - %s), %s)' % (S, a[0], a[1], a[0], a[2])
            if nm == 'copy':
                return 'xv_tr_copy_%s(%s, %s, %s)' % (S, a[0], a[1], a[2])
            if nm == 'move':
                return 'xv_tr_move_%s(%s, %s, %s)' % (S, a[0], a[1], a[2])
            if nm == 'assign' and len(a) == 3:
                return 'xv_tr_assign_%s(%s, %s, %s)' % (S, a[0], a[1], a[2])
            if nm == 'assign' and len(a) == 2:
                return '(%s = %s)' % (em.lv(args[0]), a[1])
            if nm == 'find':
                return 'xv_tr_find_%s(%s, %s, %s)' % (S, a[0], a[1], em.rv_or_lv(args[2]) if args[2].get('valueCategory') == 'prvalue' else em.lv(args[2]))
            if nm == 'compare':
                return 'xv_tr_compare_%s(%s, %s, %s)' % (S, a[0], a[1], a[2])
            if nm == 'length':
                return 'xv_strlen(%s)' % a[0]
            if nm == 'eq':
                return '(%s == %s)' % (a[0], a[1])
            if nm == 'lt':
                return 'XV_CHR_LT(%s, %s)' % (a[0], a[1])
            raise Unsupported(q)
        if q in ('std::fill_n', 'std::fill'):
            self.used.add(q)
            ct = em.ctype(dq(args[0]['type']))
            if not ct.endswith('*'):
                raise Unsupported(q + ' on non-pointer iterators')
            S = san(ct[:-1].strip().replace('*', '_p'))
            a = [em.rv_or_lv(x) for x in args[:2]] + [em.addr(args[2])]
            if q == 'std::fill_n':
                return 'xv_fill_n_%s(%s, %s, *%s)' % (S, a[0], a[1], a[2])
            return 'xv_fill_n_%s(%s, (unsigned long)(%s - %s), *%s)' % (S, a[0], a[1], a[0], a[2])
        if q == 'std::advance':
            self.used.add(q + ' (pointer iterators: it += n)')
            ct = em.ctype(dq(args[0]['type']))
            if not ct.endswith('*'):
                raise Unsupported('std::advance on non-pointer iterators')
            return '(%s += %s)' % (em.lv(args[0]), em.rv_or_lv(args[1]))
        if q == 'std::distance':
            self.used.add(q)
            return '(%s - %s)' % (em.rv_or_lv(args[1]), em.rv_or_lv(args[0]))
        if q == 'std::swap' and len(args) == 2:
            self.used.add(q)
            t0 = strip_cv(dq(args[0]['type'])).rstrip('& ')
            vt = self.type(t0, em) or ''
            if vt.startswith('xv_vec_'):
                return 'xv_vec_%s_swap(%s, %s)' % (vt[len('xv_vec_'):], em.addr(args[0]), em.addr(args[1]))
            ct = em.ctype(t0)
            return 'XV_SWAP(%s, %s, %s)' % (ct, em.addr(args[0]), em.addr(args[1]))
        if q in ('std::min', 'std::max') and len(args) == 2:
            self.used.add(q)
            a, b = em.addr(args[0]), em.addr(args[1])
            op = '<' if q == 'std::min' else '>'
            # std::min(a,b) returns b < a ? b : a (reference)
            if q == 'std::min':
                return '((*%s < *%s) ? %s : %s)' % (b, a, b, a)
            return '((*%s < *%s) ? %s : %s)' % (a, b, b, a)
        raise Unsupported('std function ' + q)

    def builtin(self, rd, args, em, n):
        name = rd.get('name', '')
        if name.startswith('__builtin_'):
            self.used.add(name)
            return '%s(%s)' % (name, ', '.join(em.rv_or_lv(x) for x in args))
        return None

    def construct(self, tstr, n, target, args, em):
        t = strip_cv(tstr)
        if t.startswith('__gnu_cxx::__normal_iterator'):
            if len(args) == 1:
                return '(*%s = %s)' % (target, em.rv_or_lv(args[0]))
            raise Unsupported('std construct ' + tstr)
        if t.startswith('std::reverse_iterator<'):
            self.used.add('std::reverse_iterator(iterator)')
            if len(args) == 1 and not strip_cv(dq(args[0]['type'])).rstrip('&').startswith('std::reverse_iterator'):
                return '((%s)->current = %s)' % (target, em.rv_or_lv(args[0]))
            if len(args) == 1:
                return '(*%s = %s)' % (target, em.rv_or_lv(args[0]))
        vt = self.type(t, em) or ''
        if vt.startswith('xv_vec_') and t.startswith('std::vector'):
            S = vt[len('xv_vec_'):]
            real = [x for x in args if not strip_cv(dq(x['type'])).rstrip('& ').startswith('std::allocator')]
            self.used.add('std::vector constructor (%d args)' % len(real))
            if len(real) == 0:
                return 'xv_vec_%s_ctor_n(%s, 0, 0)' % (S, target)    # empty vector: valid zero-length block, begin() == end()
            at0 = strip_cv(dq(real[0]['type'])).rstrip('& ')
            if len(real) == 1 and (self.type(at0, em) or '') == vt:
                if n.get('elidable') or real[0].get('valueCategory') == 'xvalue':
                    return '(*%s = *%s)' % (target, em.addr(real[0]))
                src = em.addr(real[0])
                return 'xv_vec_%s_ctor_range(%s, (%s)->data, (%s)->data + (%s)->size)' % (S, target, src, src, src)
            if len(real) == 2 and (em.ctype(at0).endswith('*')):
                return 'xv_vec_%s_ctor_range(%s, %s, %s)' % (S, target, em.rv_or_lv(real[0]), em.rv_or_lv(real[1]))
            if len(real) == 2:
                return 'xv_vec_%s_ctor_n(%s, %s, %s)' % (S, target, em.rv_or_lv(real[0]), em.rv_or_lv(real[1]))
            if len(real) == 1:
                return 'xv_vec_%s_ctor_n(%s, %s, 0)' % (S, target, em.rv_or_lv(real[0]))
            raise Unsupported('std::vector constructor ' + n.get('ctorType', {}).get('qualType', ''))
        if t.startswith('std::allocator<'):
            return '((void)0)'
        if self.type(t, em) == 'xv_str':
            if len(args) == 0:
                self.used.add('std::string()')
                return ('xv_strs_init(%s)' if self.strs_mode else 'xv_str_init(%s)') % target
            if len(args) == 1 and self.type(strip_cv(dq(args[0]['type'])).rstrip('&'), em) == 'xv_str':
                if n.get('elidable') or args[0].get('valueCategory') == 'xvalue':
                    self.used.add('std::string(move / elided copy) = transfer of the storage')
                    return '(*%s = *%s)' % (target, em.addr(args[0]))
                self.used.add('std::string(copy)')
                return ('xv_strs_copy(%s, %s)' if self.strs_mode else 'xv_str_copy(%s, %s)') % (target, em.addr(args[0]))
            raise Unsupported('std::string constructor ' + n.get('ctorType', {}).get('qualType', ''))
        if t.startswith('std::'):
            if len(args) == 1 and norm_t(dq(args[0]['type'])).rstrip('&') == norm_t(t):
                return '(*%s = %s)' % (target, em.rv_or_lv(args[0]))
            if self.type(t, em) == 'xv_empty' and t.startswith('std::hash<'):
                return '((void)0)'
            if len(args) == 0 and (self.type(t, em) == 'xv_empty' or (self.type(t, em) or '').startswith('xv_arr_')):
                return '((void)0)'   # trivial default construction: members stay uninitialised, as in C++
            raise Unsupported('std construct ' + tstr)
        return None

    def default_construct(self, tstr, target, em):
        t = strip_cv(tstr)
        ct = self.type(t, em)
        if ct == 'xv_str':
            return ('xv_strs_init(%s)' if self.strs_mode else 'xv_str_init(%s)') % target
        if ct and ct.startswith('xv_vec_'):
            return '((%s)->data = 0, (%s)->size = 0)' % (target, target)
        if ct:
            return '((void)0)'
        return None

    def initlist(self, t, tgt, items, em):
        return None

    def global_var(self, decl, em):
        return None

    # ----- C text for on-demand typedefs -----
    def typedefs_c(self, late=False):
        """late=False: typedefs over builtin element types (before the lowered structs); late=True: those over lowered structs"""
        return '\n'.join(l for l in self._typedefs_c().split('\n') if ('struct S_' in l) == late)

    def _typedefs_c(self):
        out = []
        for el, nm in self.vec_types.items():
            out.append('typedef struct { %s* data; unsigned long size; } %s;' % (el, nm))
            out.append('#ifndef XV_GB_%s\n#define XV_GB_%s XV_GB\n#endif' % (nm[len('xv_vec_'):], nm[len('xv_vec_'):]))
            out.append('XV_VEC_MODEL(%s, %s)' % (el, nm[len('xv_vec_'):]))
        for (el, n), nm in self.arr_types.items():
            out.append('typedef struct { %s a[%s]; } %s;' % (el, n, nm))
        for el, nm in self.rit_types.items():
            out.append('typedef struct { %s current; } %s;' % (el, nm))
        for S in sorted(self.chr_types):
            out.append('XV_CHR_MODEL(%s, %s)' % (S.replace('_', ' '), S))
        return '\n'.join(out)
