#!/usr/bin/env python3
"""xtl2c: mechanical lowering of *instantiated* C++ functions (clang JSON AST) to C for CBMC.

Run on every check from /repo's working tree (see DESIGN.md 3.2).  Anything that is not
covered by a rule raises Unsupported -> the check exits 2 (tool trouble), never a violation.
"""
import json, sys, re, hashlib, subprocess, os

sys.setrecursionlimit(100000)


class Unsupported(Exception):
    pass


BUILTIN = {
    'bool': '_Bool', 'char': 'char', 'signed char': 'signed char', 'unsigned char': 'unsigned char',
    'short': 'short', 'unsigned short': 'unsigned short', 'int': 'int', 'unsigned int': 'unsigned int',
    'long': 'long', 'unsigned long': 'unsigned long', 'long long': 'long long',
    'unsigned long long': 'unsigned long long', 'float': 'float', 'double': 'double',
    'long double': 'long double', 'void': 'void', 'wchar_t': 'int', 'char16_t': 'unsigned short',
    'char32_t': 'unsigned int', '__int128': '__int128', 'unsigned __int128': 'unsigned __int128',
    'unsigned': 'unsigned int', 'std::nullptr_t': 'void*', 'nullptr_t': 'void*',
}
ABBR = {
    '_Bool': 'b', 'char': 'c', 'signed char': 'sc', 'unsigned char': 'uc', 'short': 's', 'unsigned short': 'us',
    'int': 'i', 'unsigned int': 'u', 'long': 'l', 'unsigned long': 'ul', 'long long': 'll',
    'unsigned long long': 'ull', 'float': 'f', 'double': 'd', 'long double': 'ld', 'void': 'v',
    '__int128': 'i128', 'unsigned __int128': 'u128',
}
OPNAMES = {
    'operator<<=': 'op_shl_assign', 'operator>>=': 'op_shr_assign', 'operator[]': 'op_index',
    'operator&=': 'op_and_assign', 'operator|=': 'op_or_assign', 'operator^=': 'op_xor_assign',
    'operator==': 'op_eq', 'operator!=': 'op_ne', 'operator~': 'op_compl', 'operator<<': 'op_shl',
    'operator>>': 'op_shr', 'operator+=': 'op_add_assign', 'operator-=': 'op_sub_assign',
    'operator*=': 'op_mul_assign', 'operator/=': 'op_div_assign', 'operator%=': 'op_mod_assign',
    'operator+': 'op_add', 'operator-': 'op_sub', 'operator*': 'op_mul', 'operator/': 'op_div',
    'operator%': 'op_mod', 'operator<': 'op_lt', 'operator>': 'op_gt', 'operator<=': 'op_le',
    'operator>=': 'op_ge', 'operator=': 'op_assign', 'operator++': 'op_inc', 'operator--': 'op_dec',
    'operator()': 'op_call', 'operator->': 'op_arrow', 'operator!': 'op_not', 'operator&': 'op_amp',
    'operator|': 'op_or', 'operator^': 'op_xor', 'operator&&': 'op_land', 'operator||': 'op_lor',
    'operator,': 'op_comma',
}


def san(s):
    return re.sub(r'_+', '_', re.sub(r'[^A-Za-z0-9_]', '_', s)).strip('_')


def dq(t):
    return t.get('desugaredQualType', t.get('qualType'))


def norm_t(t):
    """normalise a clang type string for dictionary lookup"""
    t = re.sub(r'\b(class|struct|enum|typename) ', '', t)
    t = re.sub(r'\bconst\b', '', t)
    t = re.sub(r'\bvolatile\b', '', t)
    t = re.sub(r'\s+', ' ', t).strip()
    t = re.sub(r'\s*([<>,*&])\s*', r'\1', t)
    t = re.sub(r'(?<![\w.])(-?\d+)(?:[uU]?[lL]{0,2}|[lL]{1,2}[uU])(?![\w.])', r'\1', t)
    return t


def norm_tc(t):
    """like norm_t but keeps const inside template arguments (xcomplex<const int&,...> and xcomplex<int&,...> are different records)"""
    t = re.sub(r'\b(class|struct|enum|typename) ', '', t)
    t = re.sub(r'\bvolatile\b', '', t)
    t = strip_cv(re.sub(r'\s+', ' ', t).strip())
    t = re.sub(r'\s*([<>,*&])\s*', r'\1', t)
    t = re.sub(r'(?<![\w.])(-?\d+)(?:[uU]?[lL]{0,2}|[lL]{1,2}[uU])(?![\w.])', r'\1', t)
    return t


def strip_cv(t):
    t = t.strip()
    changed = True
    while changed:
        changed = False
        for q in ('const ', 'volatile '):
            if t.startswith(q):
                t = t[len(q):].strip(); changed = True
        for q in (' const', ' volatile'):
            if t.endswith(q):
                t = t[:-len(q)].strip(); changed = True
    return t


def simplify_traits(t):
    """evaluate the <type_traits> aliases that clang leaves unevaluated in function type strings"""
    # xtl's SFINAE aliases  disable_xcomplex<E, R> / enable_xcomplex<E, R> / enable_scalar<E, R>  are R when the overload exists
    for _ in range(4):
        m = re.search(r'(?:typename )?(?:(?:xtl::)?(?:disable_xcomplex|enable_xcomplex|enable_scalar)|std::enable_if_t)<', t)
        if not m:
            break
        i = m.end(); d = 1; j = i
        while j < len(t) and d:
            d += t[j] == '<'; d -= t[j] == '>'; j += 1
        parts = split_top(t[i:j - 1])
        t = t[:m.start()] + (parts[1].strip() if len(parts) > 1 else 'void') + t[j:]
    # std::conditional_t<std::is_reference<X>::value, A, B>  and  xtl's apply_cv_t<X, Y>
    for _ in range(4):
        m = re.search(r'(?:typename )?std::conditional_t<std::is_reference<', t)
        if not m:
            break
        i = t.index('<', m.start()) + 1; d = 1; j = i
        while j < len(t) and d:
            d += t[j] == '<'; d -= t[j] == '>'; j += 1
        parts = split_top(t[i:j - 1])
        mm = re.fullmatch(r'\s*std::is_reference<(.*)>::value\s*', parts[0])
        if not mm or len(parts) != 3:
            break
        t = t[:m.start()] + (parts[1] if mm.group(1).strip().endswith('&') else parts[2]).strip() + t[j:]
    for _ in range(4):
        m = re.search(r'(?:xtl::)?apply_cv_t<', t)
        if not m:
            break
        i = m.end(); d = 1; j = i
        while j < len(t) and d:
            d += t[j] == '<'; d -= t[j] == '>'; j += 1
        parts = split_top(t[i:j - 1])
        if len(parts) != 2:
            break
        x = parts[0].strip().rstrip('&').strip()
        t = t[:m.start()] + ('const ' if (x.startswith('const ') or x.endswith(' const')) else '') + parts[1].strip() + t[j:]
    # typename std::remove_reference<X>::type  ->  std::remove_reference_t<X>
    for _ in range(4):
        m = re.search(r'(?:typename )?std::(remove_reference|remove_cv|remove_const|decay|add_const)<', t)
        if not m:
            break
        i = m.end(); d = 1; j = i
        while j < len(t) and d:
            d += t[j] == '<'; d -= t[j] == '>'; j += 1
        if t[j:j + 6] != '::type':
            break
        t = t[:m.start()] + 'std::%s_t<%s>' % (m.group(1), t[i:j - 1]) + t[j + 6:]
    for _ in range(12):
        m = None
        for m in re.finditer(r'(?:typename )?std::(add_lvalue_reference_t|add_rvalue_reference_t|add_const_t|decay_t|remove_reference_t|remove_const_t|remove_cv_t|add_pointer_t|remove_pointer_t)<', t):
            # innermost first: find the matching '>'
            i = m.end(); d = 1; j = i
            while j < len(t) and d:
                d += t[j] == '<'; d -= t[j] == '>'; j += 1
            inner = t[i:j - 1]
            if re.search(r'std::(add_|decay_t|remove_)', inner):
                continue
            x = inner.strip()
            k = m.group(1)
            if k == 'add_lvalue_reference_t':
                r = x if x.endswith('&') else x + ' &'
            elif k == 'add_rvalue_reference_t':
                r = x if x.endswith('&') else x + ' &&'
            elif k == 'add_const_t':
                r = x if (x.endswith('&') or x.startswith('const ')) else 'const ' + x
            elif k in ('decay_t',):
                r = strip_cv(x.rstrip('& ').strip())
            elif k == 'remove_reference_t':
                r = x.rstrip('& ').strip()
            elif k in ('remove_const_t', 'remove_cv_t'):
                r = strip_cv(x)
            elif k == 'add_pointer_t':
                r = x.rstrip('& ').strip() + ' *'
            else:
                r = x[:-1].strip() if x.endswith('*') else x
            t = t[:m.start()] + r + t[j:]
            break
        else:
            return t
        if m is None:
            return t
    return t


def split_top(s, sep=','):
    out, d, cur = [], 0, ''
    for ch in s:
        if ch in '<([':
            d += 1
        elif ch in '>)]':
            d -= 1
        if ch == sep and d == 0:
            out.append(cur.strip()); cur = ''
        else:
            cur += ch
    if cur.strip():
        out.append(cur.strip())
    return out


FN_KINDS = ('FunctionDecl', 'CXXMethodDecl', 'CXXConstructorDecl', 'CXXDestructorDecl', 'CXXConversionDecl')
REC_KINDS = ('CXXRecordDecl', 'ClassTemplateSpecializationDecl')


class TU:
    def __init__(self, root, repo_prefix):
        self.root = root
        self.byid = {}
        self.repo_prefix = repo_prefix
        self.rec_of_member = {}
        self.recs = []
        self.fns_by_mangled = {}
        self.all_fns = []
        self._index(root, None, None, None)

    def _index(self, n, p, curfile, currec):
        stack = [(n, p, curfile, currec)]
        while stack:
            n, p, curfile, currec = stack.pop()
            n['_p'] = p
            loc = n.get('loc')
            if loc:
                f = loc.get('file') or (loc.get('expansionLoc') or {}).get('file') or (loc.get('spellingLoc') or {}).get('file')
                if f:
                    curfile = f
                    self._lastfile = f
            i = n.get('id')
            k = n.get('kind')
            if i is not None and k is not None:
                if i not in self.byid or ('inner' in n and 'inner' not in self.byid[i]):
                    self.byid[i] = n
            if k in REC_KINDS:
                if n.get('completeDefinition'):
                    self.recs.append(n)
                currec = n
            elif k in FN_KINDS:
                if currec is not None and p is currec or (p is not None and p.get('kind') == 'FunctionTemplateDecl' and p.get('_p') is currec and currec is not None):
                    self.rec_of_member[n['id']] = currec
                self.all_fns.append(n)
                currec_for_children = None
            elif k == 'FieldDecl' and currec is not None and p is currec:
                self.rec_of_member[n['id']] = currec
            inner = n.get('inner')
            if inner:
                cr = None if k in FN_KINDS else currec
                for c in reversed(inner):
                    stack.append((c, n, curfile, cr))

    def finalize(self):
        # file attribution: clang only prints 'file' when it changes, in document order.
        cur = [None]

        def walk(n):
            stack = [n]
            while stack:
                n = stack.pop()
                for key in ('loc',):
                    loc = n.get(key)
                    if loc:
                        f = loc.get('file')
                        if not f and 'expansionLoc' in loc:
                            f = loc['expansionLoc'].get('file') or loc.get('spellingLoc', {}).get('file')
                        if f:
                            cur[0] = f
                rng = n.get('range')
                if rng:
                    b = rng.get('begin', {})
                    f = b.get('file') or (b.get('expansionLoc') or {}).get('file')
                    # range begin file applies to this node only if loc has none
                n['_file'] = cur[0]
                inner = n.get('inner')
                if inner:
                    for c in reversed(inner):
                        stack.append(c)
        # NOTE: document order matters; emulate recursion order with explicit stack (reversed push)
        walk(self.root)
        for n in self.all_fns:
            m = n.get('mangledName')
            if m and self.body(n) is not None and not self.is_pattern(n):
                self.fns_by_mangled.setdefault(m, n)

    def is_pattern(self, n):
        c, p = n, n.get('_p')
        while p is not None:
            pk = p.get('kind')
            if pk == 'FunctionTemplateDecl':
                first = [x for x in p.get('inner', []) if x.get('kind') in FN_KINDS]
                if first and first[0] is c:
                    return True
            if pk == 'ClassTemplateDecl':
                first = [x for x in p.get('inner', []) if x.get('kind') == 'CXXRecordDecl']
                if first and first[0] is c:
                    return True
            if pk == 'ClassTemplatePartialSpecializationDecl':
                return True
            if pk in ('TypeAliasTemplateDecl', 'VarTemplateDecl'):
                return True
            c, p = p, p.get('_p')
        return False

    def qualname(self, n):
        parts = []
        cur = n
        while cur is not None:
            k = cur.get('kind')
            if k in ('NamespaceDecl',) + REC_KINDS + FN_KINDS + ('ClassTemplatePartialSpecializationDecl', 'EnumDecl'):
                nm = cur.get('name', '')
                if nm or k != 'NamespaceDecl':
                    if not (k == 'NamespaceDecl' and cur.get('isInline')):
                        parts.append(nm)
            pid = cur.get('parentDeclContextId')
            if pid and pid in self.byid and k in REC_KINDS + FN_KINDS:
                cur = self.byid[pid]      # semantic parent (explicit instantiations, out-of-line definitions)
            else:
                cur = cur.get('_p')
            if cur is not None and cur.get('kind') == 'TranslationUnitDecl':
                break
        return '::'.join(reversed(parts))

    def semantic_qualname(self, n):
        """qualified name following parentDeclContextId for out-of-line definitions"""
        pid = n.get('parentDeclContextId')
        if pid and pid in self.byid:
            return self.semantic_qualname_ctx(self.byid[pid]) + '::' + n.get('name', '')
        return self.qualname(n)

    def semantic_qualname_ctx(self, n):
        return self.qualname(n)

    def body(self, fn):
        for c in fn.get('inner', []):
            if c.get('kind') == 'CompoundStmt':
                return c
        return None

    def definition(self, fn):
        if self.body(fn) is not None and not self.is_pattern(fn):
            return fn
        m = fn.get('mangledName')
        if m:
            return self.fns_by_mangled.get(m)
        return None

    def in_repo(self, n):
        f = n.get('_file') or ''
        return f.startswith(self.repo_prefix)

    def rec_typestr(self, rec):
        """full type string of a record, e.g. xtl::foo<unsigned char, 4>"""
        q = self.qualname(rec)
        if rec.get('kind') == 'ClassTemplateSpecializationDecl':
            args = []
            for c in rec.get('inner', []):
                if c.get('kind') == 'TemplateArgument':
                    args.append(self.targ_str(c))
            q += '<' + ', '.join(args) + '>'
        return q

    def targ_str(self, c):
        if 'type' in c:
            return dq(c['type'])
        if 'value' in c:
            v = c['value']
            return ('true' if v else 'false') if isinstance(v, bool) else str(v)
        if c.get('isPack') or 'inner' in c:
            return ', '.join(self.targ_str(x) for x in c.get('inner', []) if x.get('kind') == 'TemplateArgument')
        if 'decl' in c:
            return c['decl'].get('name', '?')
        return '?'


def load_tu(unit_cpp, include_dirs, defines=(), std='c++14', cache_dir=None, extra=()):
    cmd = ['clang++', '-std=' + std, '-fsyntax-only', '-Wno-everything', '-Xclang', '-ast-dump=json']
    for i in include_dirs:
        cmd += ['-I', i]
    for d in defines:
        cmd += ['-D' + d]
    cmd += list(extra) + [unit_cpp]
    p = subprocess.run(cmd, stdout=subprocess.PIPE, stderr=subprocess.PIPE)
    if p.returncode != 0:
        raise Unsupported('clang failed on %s:\n%s' % (unit_cpp, p.stderr.decode()[-3000:]))
    root = json.loads(p.stdout)
    del p
    tu = TU(root, os.path.realpath(include_dirs[0]) + '/')
    tu.finalize()
    return tu


class Lower:
    def __init__(self, tu, std, rec_alias=(), have_contract=lambda a: False, have_loop=lambda a, k: False,
                 fn_alias=None, opaque=(), have_macro=lambda name: False, uf_mul=False):
        self.have_macro = have_macro
        self.uf_mul = uf_mul       # unsigned 32/64-bit multiplication emitted as XV_UMULnn(a,b) (uninterpreted under CBMC)
        self.tu = tu
        self.std = std
        self.rec_alias = list(rec_alias)      # [(regex on normalised record type string, alias)]
        self.have_contract = have_contract
        self.have_loop = have_loop
        self.fn_alias = fn_alias or {}
        self.opaque = list(opaque)            # regexes on qualified names: declared, never lowered
        self.names = {}
        self.used_names = {}
        self.recname = {}
        self.rec_by_t = {}
        self.rec_by_tc = {}     # const-preserving keys (exact specialisation)
        self.structs = {}
        self.struct_order = []
        self.typedefs = {}
        self.maythrow = set()
        self.exc_codes = set()
        self.reset()
        self._register_records()

    def reset(self):
        self.funcs = {}
        self.order = []
        self.pending = []
        self.calls = {}        # mangled -> set(mangled)
        self.throws = set()    # mangled with a direct throw
        self.loops = {}        # alias -> count
        self.fninfo = {}       # alias -> dict
        self.globals = {}
        self.global_order = []
        self.externs = {}

    # ---------- records ----------
    def _register_records(self):
        for rec in self.tu.recs:
            if self.tu.is_pattern(rec):
                continue
            ts = self.tu.rec_typestr(rec)
            if '<dependent' in ts or 'type-parameter' in ts:
                continue
            for key in self.typestr_variants(rec, ts):
                self.rec_by_tc.setdefault(norm_tc(key), rec)
                self.rec_by_t.setdefault(norm_t(key), rec)
                self.rec_by_t.setdefault(self.strip_default_args(norm_t(key)), rec)
        # `this` types are printed canonically: harvest them too
        for fn in self.tu.all_fns:
            rec = self.tu.rec_of_member.get(fn['id'])
            if rec is None or self.tu.is_pattern(fn):
                continue
            tt = fn.get('_thistype')
        self._scan_this(self.tu.root)

    def _scan_this(self, root):
        stack = [(root, None)]
        while stack:
            n, cur = stack.pop()
            k = n.get('kind')
            if k in FN_KINDS and n['id'] in self.tu.rec_of_member:
                cur = self.tu.rec_of_member[n['id']]
            if k == 'CXXThisExpr' and cur is not None:
                t = dq(n['type'])
                if '<dependent' not in t and 'type-parameter' not in t:
                    key = norm_t(t).rstrip('*')
                    self.rec_by_t.setdefault(key, cur)
            for c in n.get('inner', []) or []:
                stack.append((c, cur))

    def typestr_variants(self, rec, ts):
        """bool template arguments are dumped as 0/1 but printed as false/true inside type strings"""
        out = [ts]
        if rec.get('kind') == 'ClassTemplateSpecializationDecl':
            args = [c for c in rec.get('inner', []) if c.get('kind') == 'TemplateArgument']
            if any('value' in c and c['value'] in (0, 1) and not isinstance(c['value'], bool) for c in args):
                q = self.tu.qualname(rec)
                parts = []
                for c in args:
                    if 'value' in c and c['value'] in (0, 1):
                        parts.append('true' if c['value'] else 'false')
                    else:
                        parts.append(self.tu.targ_str(c))
                out.append(q + '<' + ', '.join(parts) + '>')
        return out

    DEFAULT_TARGS = {'xtl::xoptional': 'bool', 'xtl::xmasked_value': 'bool'}

    @staticmethod
    def strip_default_args(key):
        """clang elides defaulted template arguments when printing some types: index records under that spelling too"""
        prev = None
        while prev != key:
            prev = key
            key = re.sub(r',std::allocator<[^<>]*>', '', key)
            key = re.sub(r',std::char_traits<[^<>]*>', '', key)
        return key

    def find_record(self, t):
        r = self.rec_by_tc.get(norm_tc(t))
        if r is not None:
            return r
        key = norm_t(t)
        r = self.rec_by_t.get(key)
        if r is None:
            r = self.rec_by_t.get(self.strip_default_args(key))
        if r is not None:
            return r
        # trailing defaulted template arguments elided by the type printer (e.g. xoptional<int> for xoptional<int, bool>)
        mm = re.fullmatch(r'([\w:]+)<(.*)>', key)
        if mm and mm.group(1) in self.DEFAULT_TARGS:
            r = self.rec_by_t.get('%s<%s,%s>' % (mm.group(1), mm.group(2), self.DEFAULT_TARGS[mm.group(1)]))
            if r is not None:
                return r
        if not hasattr(self, '_rec_miss'):
            self._rec_miss = {}
        if key in self._rec_miss:
            return self._rec_miss[key]
        cands = [v for k, v in self.rec_by_t.items() if k.endswith('::' + key)]
        if not cands and key.endswith('>'):
            # defaulted trailing template arguments elided by the printer: unique specialisation with these leading arguments
            pre = key[:-1] + ','
            cands = [v for k, v in self.rec_by_t.items() if k.startswith(pre) or ('::' + pre) in k]
        ids = set(c['id'] for c in cands)
        r = cands[0] if len(ids) == 1 else None
        self._rec_miss[key] = r
        return r

    def rec_alias_of(self, rec):
        ts0 = self.tu.rec_typestr(rec)
        # exact (const-preserving) spelling first: xclosure_wrapper<const int&> and xclosure_wrapper<int&> are different records
        for v in self.typestr_variants(rec, ts0):
            if 'const' in v:
                for rx, al in self.rec_alias:
                    if 'const' in rx and re.fullmatch(rx, norm_tc(v)):
                        return al
        for v in self.typestr_variants(rec, ts0):
            for ts in (norm_t(v), self.strip_default_args(norm_t(v))):
                for rx, al in self.rec_alias:
                    if re.fullmatch(rx, ts):
                        return al
        return None

    def struct_for(self, rec):
        rid = rec['id']
        if rid in self.recname:
            return self.recname[rid]
        al = self.rec_alias_of(rec)
        if al is None:
            ts = self.tu.rec_typestr(rec)
            al = san(rec.get('name', 'anon')) + '_' + hashlib.sha1(ts.encode()).hexdigest()[:5]
        nm = 'S_' + al
        self.recname[rid] = nm
        self.structs[nm] = None   # placeholder (recursion guard)
        fields = []
        if rec.get('tagUsed') == 'union':
            kw = 'union'
        else:
            kw = 'struct'
        for i, b in enumerate(rec.get('bases', [])):
            bt = dq(b['type'])
            fields.append('  %s __base_%d;' % (self.ctype(bt), i))
        for c in rec.get('inner', []):
            if c.get('kind') == 'FieldDecl':
                fields.append('  %s;' % self.cdecl(dq(c['type']), c['name']))
        if not fields:
            fields.append('  char __empty;')
        self.structs[nm] = '%s %s {\n%s\n};' % (kw, nm, '\n'.join(fields))
        self.struct_order.append(nm)
        return nm

    def base_index(self, rec, base_t):
        for i, b in enumerate(rec.get('bases', [])):
            if norm_t(dq(b['type'])) == norm_t(base_t):
                return i
        raise Unsupported('base %s not found in %s' % (base_t, self.tu.rec_typestr(rec)))

    # ---------- types ----------
    def cdecl(self, tstr, name):
        """C declaration of `name` with C++ type tstr (handles arrays)"""
        t = strip_cv(tstr)
        m = re.fullmatch(r'(.*?)\s*((?:\[\d+\])+)', t)
        if m:
            return '%s %s%s' % (self.ctype(m.group(1)), name, m.group(2))
        return '%s %s' % (self.ctype(t), name)

    def ctype(self, tstr):
        if ('std::' in tstr and ('_t<' in tstr or '>::type' in tstr)) or 'apply_cv_t<' in tstr:
            tstr = simplify_traits(tstr)
        t = strip_cv(tstr)
        t = re.sub(r'\s+', ' ', t)
        t = re.sub(r'^(class|struct|enum) ', '', t)
        if t.endswith('&&'):
            return self.ctype(t[:-2]) + '*'
        if t.endswith('&'):
            return self.ctype(t[:-1]) + '*'
        if t.endswith('*'):
            return self.ctype(t[:-1]) + '*'
        if t.endswith('*const') or t.endswith('* const'):
            return self.ctype(re.sub(r'\*\s*const$', '*', t))
        m = re.fullmatch(r'(.*?)\s*\((\*|&)\)\[(\d+)\]', t)
        if m:   # pointer/reference to array -> pointer to element
            return self.ctype(m.group(1)) + '*'
        m = re.fullmatch(r'(.*?)\s*\[(\d+)\]', t)
        if m:
            return self.ctype(m.group(1)) + '*'
        if t in BUILTIN:
            return BUILTIN[t]
        m = self.std.type(t, self)
        if m:
            return m
        rec = self.find_record(t)
        if rec is not None:
            kw = 'union' if rec.get('tagUsed') == 'union' else 'struct'
            return kw + ' ' + self.struct_for(rec)
        # nested typedef of a known record:  Rec::alias
        m = re.fullmatch(r'(.*)::(\w+)', t)
        if m:
            rec = self.find_record(m.group(1))
            if rec is not None:
                for c in rec.get('inner', []):
                    if c.get('kind') in ('TypeAliasDecl', 'TypedefDecl') and c.get('name') == m.group(2):
                        return self.ctype(dq(c['type']))
        en = self.find_enum(t)
        if en is not None:
            return en
        al = self.resolve_alias(t)
        if al is not None:
            return self.ctype(al)
        al = self.resolve_alias_template(t)
        if al is not None:
            return self.ctype(al)
        raise Unsupported('type: ' + tstr)

    def resolve_alias_template(self, t):
        """alias template left un-desugared by clang:  name<args>  with  template<params> using name = pattern;"""
        m = re.fullmatch(r'(?:[\w:]*::)?(\w+)<(.*)>', t)
        if not m:
            return None
        if not hasattr(self, '_alias_tmpl'):
            self._alias_tmpl = {}
            stack = [self.tu.root]
            while stack:
                n = stack.pop()
                for c in n.get('inner', []) or []:
                    k = c.get('kind')
                    if k in ('NamespaceDecl', 'LinkageSpecDecl'):
                        stack.append(c)
                    elif k == 'TypeAliasTemplateDecl':
                        params = [x.get('name') for x in c.get('inner', []) if x.get('kind') in ('TemplateTypeParmDecl', 'NonTypeTemplateParmDecl')]
                        al = [x for x in c.get('inner', []) if x.get('kind') == 'TypeAliasDecl']
                        if al:
                            ns = self.tu.qualname(c)
                            self._alias_tmpl.setdefault(c.get('name'), (params, al[0]['type']['qualType'], '::'.join(ns.split('::')[:-1]) if '::' in ns else ''))
        ent = self._alias_tmpl.get(m.group(1))
        if ent is None:
            return None
        params, pattern, ns = ent
        args = split_top(m.group(2))
        if len(args) != len(params):
            return None
        out = re.sub(r'^typename ', '', pattern)
        for pn, a in zip(params, args):
            if pn:
                out = re.sub(r'\b%s\b' % re.escape(pn), a, out)
        return out

    def resolve_alias(self, t):
        """sugar that clang left in a type string: member typedef of the current record (or its bases),
        or a namespace-scope alias"""
        name = t.split('::')[-1]
        if not re.fullmatch(r'\w+', name):
            return None
        fn = getattr(self, 'cur_fn', None)
        recs = []
        if fn is not None:
            # function-local `using X = ...;`
            stack = [fn]
            while stack:
                x = stack.pop()
                if x.get('kind') in ('TypeAliasDecl', 'TypedefDecl') and x.get('name') == name:
                    d = dq(x['type'])
                    if d != t:
                        return d
                for c in x.get('inner', []) or []:
                    if isinstance(c, dict) and c.get('kind') not in ('LambdaExpr',):
                        stack.append(c)
            r = self.tu.rec_of_member.get(fn['id'])
            if r is None and fn.get('parentDeclContextId') in self.tu.byid:
                r = self.tu.byid[fn['parentDeclContextId']]
            if r is not None and r.get('kind') in REC_KINDS:
                recs.append(r)
        seen = set()
        while recs:
            r = recs.pop(0)
            if r['id'] in seen:
                continue
            seen.add(r['id'])
            for c in r.get('inner', []):
                if c.get('kind') in ('TypeAliasDecl', 'TypedefDecl') and c.get('name') == name:
                    d = dq(c['type'])
                    if d != t:
                        return d
            for b in r.get('bases', []):
                br = self.find_record(dq(b['type']))
                if br is not None:
                    recs.append(br)
        if not hasattr(self, '_ns_alias'):
            self._ns_alias = {}
            stack = [self.tu.root]
            while stack:
                n = stack.pop()
                for c in n.get('inner', []) or []:
                    k = c.get('kind')
                    if k in ('NamespaceDecl', 'LinkageSpecDecl'):
                        stack.append(c)
                    elif k in ('TypeAliasDecl', 'TypedefDecl') and 'name' in c:
                        self._ns_alias.setdefault(c['name'], dq(c['type']))
        d = self._ns_alias.get(name)
        if d is not None and d != t and norm_t(d) != norm_t(t):
            return d
        return None

    def find_enum(self, t):
        if not hasattr(self, '_enums'):
            self._enums = {}
            stack = [self.tu.root]
            while stack:
                n = stack.pop()
                if n.get('kind') == 'EnumDecl':
                    q = self.tu.qualname(n)
                    ut = n.get('fixedUnderlyingType')
                    self._enums[norm_t(q)] = BUILTIN.get(dq(ut), 'int') if ut else 'int'
                for c in n.get('inner', []) or []:
                    if c.get('kind') in ('NamespaceDecl', 'EnumDecl', 'LinkageSpecDecl') + REC_KINDS:
                        stack.append(c)
        return self._enums.get(norm_t(t))

    def is_ref(self, tstr):
        return tstr.strip().endswith('&')

    def abbr(self, tstr):
        t = strip_cv(tstr)
        if t.endswith('&&'):
            return 'R' + self.abbr(t[:-2])
        if t.endswith('&'):
            return 'r' + self.abbr(t[:-1])
        if t.endswith('*'):
            return 'p' + self.abbr(t[:-1])
        try:
            ct = self.ctype(t)
        except Unsupported:
            return san(t)[:24]
        if ct in ABBR:
            return ABBR[ct]
        if ct.endswith('*'):
            return 'p' + (ABBR.get(ct[:-1].strip()) or san(ct[:-1]))
        return san(ct.replace('struct S_', '').replace('struct ', ''))

    # ---------- function naming ----------
    def params(self, fn):
        return [c for c in fn.get('inner', []) if c.get('kind') == 'ParmVarDecl']

    def cname(self, fn):
        m = fn.get('mangledName') or fn['id']
        if m in self.names:
            return self.names[m]
        forced = self.fn_alias(fn, self.tu.qualname(fn)) if callable(self.fn_alias) else self.fn_alias.get(m)
        if forced:
            nm = forced
        else:
            name = fn.get('name', 'f')
            if fn['kind'] == 'CXXConstructorDecl':
                base = 'ctor'
            elif fn['kind'] == 'CXXConversionDecl':
                base = 'conv_' + self.abbr(self.ret_type_str(fn))
            elif name in OPNAMES:
                base = OPNAMES[name]
            else:
                base = san(name) or 'f'
            rec = self.tu.rec_of_member.get(fn['id'])
            pre = ''
            if rec is not None:
                al = self.rec_alias_of(rec)
                if al is None:
                    al = self.struct_for(rec)[2:]
                pre = al + '__'
            else:
                q = self.tu.qualname(fn)
                ns = q.split('::')[:-1]
                ns = [x for x in ns if x not in ('xtl', 'detail', 'std', '')]
                if ns:
                    pre = '_'.join(san(x) for x in ns) + '__'
            saved = getattr(self, 'cur_fn', None)
            self.cur_fn = fn
            sig = '_'.join(self.abbr(dq(p['type'])) for p in self.params(fn))
            targs = self.fn_targs(fn)
            self.cur_fn = saved
            nm = pre + base
            if targs:
                nm += '__T_' + targs
            nm += '__' + (sig or 'v')
            if 'const' in fn['type']['qualType'].rsplit(')', 1)[-1]:
                nm += '_c'
        nm = re.sub(r'_{3,}', '__', nm)
        if nm in self.used_names and self.used_names[nm] != m:
            nm += '_' + hashlib.sha1(m.encode()).hexdigest()[:5]
        self.used_names[nm] = m
        self.names[m] = nm
        return nm

    def fn_targs(self, fn):
        out = []
        for c in fn.get('inner', []):
            if c.get('kind') == 'TemplateArgument':
                s = self.tu.targ_str(c)
                parts = []
                for a in split_top(s):
                    parts.append(self.abbr(a) if not re.fullmatch(r'-?\d+', a) else a.replace('-', 'm'))
                out.append('_'.join(parts))
        return '_'.join(out)

    def ret_type_str(self, fn, desugar=True):
        t = dq(fn['type']) if desugar else fn['type']['qualType']
        depth = 0
        for i, ch in enumerate(t):
            if ch in '<[':
                depth += 1
            elif ch in '>]':
                depth -= 1
            elif ch == '(' and depth == 0:
                # function pointer return types are not supported
                return t[:i].strip()
        raise Unsupported('fn type ' + t)

    def first_return(self, n):
        stack = [n]
        while stack:
            x = stack.pop(0)
            if x.get('kind') == 'ReturnStmt':
                inner = [c for c in x.get('inner', []) if 'kind' in c]
                if inner:
                    return inner[0]
            if x.get('kind') == 'LambdaExpr':
                continue
            stack = [c for c in x.get('inner', []) or [] if 'kind' in c] + stack
        return None

    def ret_cpp_type(self, fn):
        """C++ return type string of an instantiated function (trailing, decltype and deduced forms resolved)"""
        if fn['kind'] in ('CXXConstructorDecl', 'CXXDestructorDecl'):
            return 'void'
        key = fn['id']
        if not hasattr(self, '_rett'):
            self._rett = {}
        if key in self._rett:
            return self._rett[key]
        t = dq(fn['type'])
        rt = self.ret_type_str(fn)
        if (rt == 'auto' or rt.startswith('auto ')) and '->' in t:
            rt = t.rsplit('->', 1)[1].strip()
        rt = simplify_traits(rt)
        if 'decltype(' in rt or rt in ('auto', 'decltype(auto)', 'auto &&'):
            d = self.tu.definition(fn) or fn
            body = self.tu.body(d)
            e = self.first_return(body) if body is not None else None
            if e is None:
                if rt == 'auto':
                    rt = 'void'
                else:
                    raise Unsupported('cannot resolve return type ' + rt)
            else:
                et = dq(e['type'])
                if rt != 'auto' and e.get('valueCategory') == 'lvalue':
                    et += ' &'
                rt = et
        # member-typedef sugar (Rec::reference, Rec::self_type, ...) hides whether the function returns a reference
        saved_fn = getattr(self, 'cur_fn', None)
        self.cur_fn = fn
        try:
            for _ in range(6):
                core = strip_cv(rt)
                mm = re.fullmatch(r'(.*?)( ?[&*]+)?', core)
                base, suf = mm.group(1), mm.group(2) or ''
                if suf.strip() or not re.fullmatch(r'(?:typename )?(?:.*::)?\w+', base) or base in BUILTIN:
                    break
                al = self.resolve_alias(base)
                if al is None:
                    break
                rt = al + suf
        finally:
            self.cur_fn = saved_fn
        m0 = re.fullmatch(r'(?:typename )?(.*)::(\w+)( ?[&*]*)', strip_cv(rt))
        if m0:
            r0 = self.find_record(m0.group(1))
            if r0 is not None:
                for c in r0.get('inner', []):
                    if c.get('kind') in ('TypeAliasDecl', 'TypedefDecl') and c.get('name') == m0.group(2):
                        rt = dq(c['type']) + m0.group(3)
        try:
            self.ctype(rt)
        except Unsupported:
            rec = self.tu.rec_of_member.get(fn['id'])
            ok = False
            if rec is not None:
                m = re.fullmatch(r'(?:typename )?(.*)::(\w+)( ?[&*]*)', rt)
                if m:
                    for c in rec.get('inner', []):
                        if c.get('kind') in ('TypeAliasDecl', 'TypedefDecl') and c.get('name') == m.group(2):
                            rt = dq(c['type']) + m.group(3)
                            ok = True
            if not ok:
                d = self.tu.definition(fn) or fn
                body = self.tu.body(d)
                e = self.first_return(body) if body is not None else None
                if e is None or self.is_ref(rt):
                    raise
                rt = dq(e['type'])
                self.ctype(rt)
        self._rett[key] = rt
        return rt

    def ret_ctype(self, fn):
        saved = getattr(self, 'cur_fn', None)
        self.cur_fn = fn
        try:
            return self.ctype(self.ret_cpp_type(fn))
        finally:
            self.cur_fn = saved

    def ret_is_ref(self, fn):
        saved = getattr(self, 'cur_fn', None)
        self.cur_fn = fn
        try:
            return self.is_ref(self.ret_cpp_type(fn))
        finally:
            self.cur_fn = saved

    def is_method(self, fn):
        return fn.get('kind') in ('CXXMethodDecl', 'CXXConstructorDecl', 'CXXDestructorDecl', 'CXXConversionDecl') \
            and fn.get('storageClass') != 'static'

    def is_opaque(self, fn):
        q = self.tu.qualname(fn)
        for rx in self.opaque:
            if callable(rx):
                if rx(fn, q, self):
                    return True
            elif re.fullmatch(rx, q):
                return True
        return False

    def want(self, fn):
        d = self.tu.definition(fn)
        if d is None or self.is_opaque(fn):
            # declared but never defined (probe-type operations): uninterpreted extern
            m = fn.get('mangledName') or fn['id']
            nm = self.cname(fn)
            if m not in self.externs:
                self.externs[m] = fn
            if self.cur_m is not None:
                self.calls.setdefault(self.cur_m, set()).add(m)
            return nm
        m = d.get('mangledName') or d['id']
        nm = self.cname(d)
        if m not in self.funcs:
            self.funcs[m] = None
            self.pending.append(d)
        if self.cur_m is not None:
            self.calls.setdefault(self.cur_m, set()).add(m)
        return nm

    cur_m = None

    def run(self):
        while self.pending:
            d = self.pending.pop(0)
            self.emit_function(d)

    def lower_all(self, targets):
        """two passes: the first collects the call graph and direct throws, the second emits
        with exception checks after every call to a function that may throw"""
        for _pass in (0, 1):
            self.reset()
            for fn in targets:
                self.cur_m = None
                self.want(fn)
            self.run()
            mt = set(self.throws)
            changed = True
            while changed:
                changed = False
                for a, bs in self.calls.items():
                    if a not in mt and bs & mt:
                        mt.add(a); changed = True
            if mt == self.maythrow and _pass == 1:
                break
            self.maythrow = mt

    def proto(self, fn, nm=None):
        saved = getattr(self, 'cur_fn', None)
        self.cur_fn = fn
        try:
            return self._proto(fn, nm)
        finally:
            self.cur_fn = saved

    def _proto(self, fn, nm=None):
        nm = nm or self.cname(fn)
        params = []
        if self.is_method(fn):
            rec = self.tu.rec_of_member.get(fn['id'])
            if rec is None:
                pid = fn.get('parentDeclContextId')
                rec = self.tu.byid.get(pid)
            kw = 'union' if rec.get('tagUsed') == 'union' else 'struct'
            params.append('%s %s* self' % (kw, self.struct_for(rec)))
        for i, p in enumerate(self.params(fn)):
            pt = dq(p['type'])
            params.append(self.cdecl_param(pt, p.get('name') or ('_p%d' % i)))
        return '%s %s(%s)' % (self.ret_ctype(fn), nm, ', '.join(params) or 'void')

    def cdecl_param(self, pt, name):
        return '%s %s' % (self.ctype(pt), name)

    def emit_function(self, fn):
        m = fn.get('mangledName') or fn['id']
        nm = self.cname(fn)
        rec = self.tu.rec_of_member.get(fn['id'])
        self.cur_fn = fn
        self.cur_m = m
        self.cur_nm = nm
        self.tmpn = 0
        self.tmps = []
        self.loopk = 0
        self.retk = 0
        self.pre = []
        self.cur_ret_ref = self.ret_is_ref(fn)
        self.cur_ret_ct = self.ret_ctype(fn)
        decl = self.proto(fn, nm)
        body = self.tu.body(fn)
        lines = []
        if fn['kind'] == 'CXXConstructorDecl':
            for c in fn.get('inner', []):
                if c.get('kind') == 'CXXCtorInitializer':
                    s = self.ctor_init(c, rec)
                    lines += self.flush_pre(1)
                    lines.append('  ' + s)
                    if self.pending_exc_check:
                        lines.append('  ' + self.exc_return())
                        self.pending_exc_check = False
        text = self.stmt(body, 1)
        tmpdecl = ''.join('  %s;\n' % d for d in self.tmps)
        pre = ''.join(l + '\n' for l in lines)
        inner = text.strip()
        assert inner.startswith('{')
        contract = ''
        if self.have_contract(nm):
            contract = 'XV_CONTRACT_%s\n' % nm
        loc = fn.get('loc', {})
        line = loc.get('line') or (loc.get('expansionLoc') or {}).get('line') or ''
        src = '%s:%s' % ((fn.get('_file') or '').replace(self.tu.repo_prefix, 'include/'), line)
        btext = inner[1:].lstrip('\n')
        btext = '\n'.join(l[2:] if l.startswith('    ') or l == '  }' else l for l in btext.split('\n'))
        full = '/* %s  [%s] %s */\n%s\n%s{\n%s%s%s\n' % (self.tu.qualname(fn), m, src, decl, contract, tmpdecl, pre, btext)
        self.funcs[m] = (nm, decl, full)
        self.order.append(m)
        self.loops[nm] = self.loopk
        self.fninfo[nm] = {'qualname': self.tu.qualname(fn), 'mangled': m, 'source': src, 'loops': self.loopk}
        self.cur_m = None

    pending_exc_check = False

    def zero_ret(self):
        ct = self.cur_ret_ct
        if ct == 'void':
            return 'return;'
        if ct.startswith('struct ') or ct.startswith('union ') or ct.startswith('xv_'):
            if ct.endswith('*'):
                return 'return 0;'
            t = self.newtmp(ct, 'z')
            return 'return %s;' % t
        return 'return 0;'

    def exc_return(self):
        return 'if (xv_exc) { %s }' % self.zero_ret()

    def ctor_init(self, c, rec):
        inner = [x for x in c.get('inner', []) if 'kind' in x]
        if 'anyInit' in c:
            fld = c['anyInit']
            fd = self.tu.byid.get(fld['id'], fld)
            ft = dq(fd['type'])
            tgt = 'self->%s' % fld['name']
            if not inner:
                return '/* default-init %s */;' % fld['name']
            e = inner[0]
            if e.get('kind') == 'CXXDefaultInitExpr':
                fi = [x for x in fd.get('inner', []) if 'kind' in x and ('valueCategory' in x or x['kind'] == 'InitListExpr')]
                if not fi:
                    raise Unsupported('in-class initialiser of %s not found' % fld['name'])
                e = fi[0]
            if self.is_ref(ft):
                return '%s = %s;' % (tgt, self.addr(e))
            return self.init_into(tgt, ft, e) + ';'
        if 'baseInit' in c:
            bt = dq(c['baseInit'])
            idx = self.base_index(rec, bt)
            e = inner[0]
            return self.init_into('self->__base_%d' % idx, bt, e) + ';'
        raise Unsupported('ctor init ' + json.dumps({k: v for k, v in c.items() if k != 'inner'})[:200])

    def init_into(self, tgt, tstr, e):
        """expression that initialises lvalue tgt of C++ type tstr from initialiser expr e"""
        ee = self.skip_wrappers(e)
        if ee.get('kind') in ('CXXConstructExpr', 'CXXTemporaryObjectExpr'):
            return self.construct_into('(&%s)' % tgt, ee)
        if ee.get('kind') == 'InitListExpr':
            return self.initlist_into(tgt, tstr, ee)
        if ee.get('kind') == 'ImplicitValueInitExpr' or ee.get('kind') == 'CXXScalarValueInitExpr':
            return self.zero_init(tgt, tstr)
        return '%s = %s' % (tgt, self.rv(e))

    def zero_init(self, tgt, tstr):
        ct = self.ctype(tstr)
        if ct.startswith('struct ') and not ct.endswith('*') or re.search(r'\[\d+\]$', strip_cv(tstr)):
            return '__builtin_memset(&%s, 0, sizeof(%s))' % (tgt, tgt)
        return '%s = 0' % tgt

    def initlist_into(self, tgt, tstr, e):
        t = strip_cv(tstr)
        items = [x for x in e.get('inner', []) if 'kind' in x]
        m = re.fullmatch(r'(.*?)\s*\[(\d+)\]', t)
        parts = []
        if m:
            for i, it in enumerate(items):
                parts.append(self.init_into('%s[%d]' % (tgt, i), m.group(1), it))
            if len(items) < int(m.group(2)):
                if e.get('array_filler'):
                    raise Unsupported('array filler')
            return '(' + ', '.join(parts or ['(void)0']) + ')'
        sm = self.std.initlist(t, tgt, items, self)
        if sm is not None:
            return sm
        rec = self.find_record(t)
        if rec is not None:
            flds = [c for c in rec.get('inner', []) if c.get('kind') == 'FieldDecl']
            for f, it in zip(flds, items):
                parts.append(self.init_into('%s.%s' % (tgt, f['name']), dq(f['type']), it))
            return '(' + ', '.join(parts or ['(void)0']) + ')'
        if len(items) == 1:
            return '%s = %s' % (tgt, self.rv(items[0]))
        if len(items) == 0:
            return self.zero_init(tgt, tstr)
        raise Unsupported('init list for ' + tstr)

    def skip_wrappers(self, e):
        while e.get('kind') in ('ExprWithCleanups', 'CXXBindTemporaryExpr', 'ConstantExpr', 'ParenExpr',
                                'MaterializeTemporaryExpr', 'CXXFunctionalCastExpr') or \
                (e.get('kind') == 'ImplicitCastExpr' and e.get('castKind') in ('NoOp', 'ConstructorConversion')):
            if e.get('kind') == 'CXXFunctionalCastExpr' and e.get('castKind') not in ('NoOp', 'ConstructorConversion'):
                break
            e = [x for x in e['inner'] if 'kind' in x][-1]
        return e

    # ---------- statements ----------
    def flush_pre(self, ind):
        I = '  ' * ind
        out = [I + l for l in self.pre]
        self.pre = []
        return out

    def stmt(self, n, ind):
        I = '  ' * ind
        k = n.get('kind')
        if k == 'CompoundStmt':
            out = [I + '{']
            for c in n.get('inner', []) or []:
                out.append(self.stmt(c, ind + 1))
            out.append(I + '}')
            return '\n'.join(out)
        if k == 'DeclStmt':
            out = []
            for v in n.get('inner', []):
                vk = v.get('kind')
                if vk in ('UsingDecl', 'TypeAliasDecl', 'TypedefDecl', 'StaticAssertDecl', 'UsingDirectiveDecl'):
                    continue
                if vk != 'VarDecl':
                    raise Unsupported('decl ' + str(vk))
                out += self.vardecl(v, ind)
            return '\n'.join(out)
        if k == 'ReturnStmt':
            inner = [x for x in n.get('inner', []) if 'kind' in x]
            self.retk = getattr(self, 'retk', 0) + 1
            gh = self.ghost_ret(self.retk, ind)
            if gh:
                r = self.stmt_return(n, inner, ind)
                return '\n'.join(gh + [r])
            return self.stmt_return(n, inner, ind)
        return self.stmt_other(n, ind)

    def ghost_ret(self, k, ind):
        name = 'XV_GHOST_RET_%s_%d' % (self.cur_nm, k)
        if self.have_macro(name):
            return ['  ' * ind + name + ';']
        return []

    def stmt_return(self, n, inner, ind):
        I = '  ' * ind
        if True:
            if not inner:
                return I + 'return;'
            if self.cur_ret_ref and re.search(r'\[\d+\]$', strip_cv(dq(inner[0]['type']))):
                e = '(&%s[0])' % self.lv(inner[0])      # reference to array -> pointer to its first element
            elif self.cur_ret_ref:
                e = self.addr(inner[0])
            elif self.cur_ret_ct == 'void':
                e = None
                s = self.rv(inner[0], discard=True)
                return '\n'.join(self.flush_pre(ind) + [I + s + ';'] + self.post_exc(ind) + [I + 'return;'])
            else:
                e = self.rv_init(inner[0], self.cur_ret_ct)
            pe = self.post_exc(ind)
            if pe:
                t = self.newtmp(self.cur_ret_ct, 'r')
                return '\n'.join(self.flush_pre(ind) + [I + '%s = %s;' % (t, e)] + pe + [I + 'return %s;' % t])
            return '\n'.join(self.flush_pre(ind) + [I + 'return %s;' % e])

    def stmt_other(self, n, ind):
        I = '  ' * ind
        k = n.get('kind')
        if k == 'IfStmt':
            inner = [x for x in n['inner']]
            cond = inner[0]
            # C++17 init statement / condition variable not used in C++14 code paths we lower
            c = self.rv(cond)
            out = self.flush_pre(ind) + self.cond_exc(ind)
            s = I + 'if (%s)\n%s' % (c, self.block(inner[1], ind))
            if len(inner) > 2:
                s += '\n' + I + 'else\n' + self.block(inner[2], ind)
            return '\n'.join(out + [s])
        if k == 'ForStmt':
            init, _cv, cond, inc, body = n['inner']
            out = []
            out.append(I + '{')
            if init and init.get('kind'):
                out.append(self.stmt(init, ind + 1))
            sc = self.rv(cond) if cond and cond.get('kind') else '1'
            if self.pre or self.pending_exc_check:
                raise Unsupported('call that may throw in a loop condition')
            sn = self.rv(inc, discard=True) if inc and inc.get('kind') else ''
            if self.pre or self.pending_exc_check:
                raise Unsupported('call that may throw in a loop increment')
            tag = self.loop_tag()
            k = self.loopk
            out += self.ghost_hook('BEFORE', k, ind + 1)
            gb = self.ghost_hook('BODY', k, ind + 2)
            bt = self.block(body, ind + 1)
            if gb:
                bt = bt.replace('{', '{\n' + gb[0], 1)
            out.append(I + '  for (; %s; %s)%s\n%s' % (sc, sn, tag, bt))
            out += self.ghost_after(k, ind + 1)
            out.append(I + '}')
            return '\n'.join(out)
        if k == 'CXXForRangeStmt':
            # inner: [init?], range decl, begin decl, end decl, cond, inc, loopvar decl, body
            inner = n['inner']
            stmts = [x for x in inner]
            # clang layout: 0:init(optional, {}), 1:rangeStmt, 2:beginStmt, 3:endStmt, 4:cond, 5:inc, 6:loopVarStmt, 7:body
            rng, beg, end, cond, inc, lv, body = stmts[-7:]
            out = [I + '{']
            for s in (rng, beg, end):
                out.append(self.stmt(s, ind + 1))
            sc = self.rv(cond)
            sn = self.rv(inc, discard=True)
            if self.pre or self.pending_exc_check:
                raise Unsupported('may-throw in range-for header')
            tag = self.loop_tag()
            k = self.loopk
            out.append(I + '  for (; %s; %s)%s' % (sc, sn, tag))
            out.append(I + '  {')
            out.append(self.stmt(lv, ind + 2))
            out.append(self.block(body, ind + 2))
            out.append(I + '  }')
            out += self.ghost_after(k, ind + 1)
            out.append(I + '}')
            return '\n'.join(out)
        if k == 'WhileStmt':
            inner = [x for x in n['inner'] if x.get('kind')]
            cond, body = inner[-2:]
            sc = self.rv(cond)
            if self.pre or self.pending_exc_check:
                raise Unsupported('may-throw in while condition')
            tag = self.loop_tag()
            k = self.loopk
            pre = self.ghost_hook('BEFORE', k, ind)
            gb = self.ghost_hook('BODY', k, ind + 1)
            bt = self.block(body, ind)
            if gb:
                bt = bt.replace('{', '{\n' + gb[0], 1)
            return '\n'.join(pre + [I + 'while (%s)%s\n%s' % (sc, tag, bt)] + self.ghost_after(k, ind))
        if k == 'DoStmt':
            body, cond = n['inner']
            tag = self.loop_tag()
            b = self.block(body, ind)
            sc = self.rv(cond)
            if self.pre or self.pending_exc_check:
                raise Unsupported('may-throw in do condition')
            return I + 'do%s\n%s\n%swhile (%s);' % (tag, b, I, sc)
        if k == 'SwitchStmt':
            inner = [x for x in n['inner'] if x.get('kind')]
            cond, body = inner[-2:]
            sc = self.rv(cond)
            out = self.flush_pre(ind)
            return '\n'.join(out + [I + 'switch (%s)\n%s' % (sc, self.block(body, ind))])
        if k == 'CaseStmt':
            inner = [x for x in n['inner'] if x.get('kind')]
            val, sub = inner[0], inner[-1]
            return I + 'case %s:\n%s' % (self.rv(val), self.stmt(sub, ind + 1))
        if k == 'DefaultStmt':
            return I + 'default:\n%s' % self.stmt(n['inner'][0], ind + 1)
        if k == 'BreakStmt':
            return I + 'break;'
        if k == 'ContinueStmt':
            return I + 'continue;'
        if k == 'NullStmt':
            return I + ';'
        if k == 'CXXTryStmt':
            raise Unsupported('try block')
        if k == 'GCCAsmStmt':
            raise Unsupported('asm')
        # expression statement
        n0 = n
        while n0.get('kind') in ('ExprWithCleanups', 'ParenExpr'):
            n0 = n0['inner'][0]
        if n0.get('kind') == 'ConditionalOperator' and dq(n0['type']) == 'void':
            c, a, b = n0['inner']
            cc = self.rv(c)
            out = self.flush_pre(ind)
            return '\n'.join(out + [I + 'if (%s)\n%s\n%selse\n%s' % (cc, self.block(a, ind), I, self.block(b, ind))])
        if self.is_message_type(dq(n0.get('type', {'qualType': ''}))):
            return I + '/* exception message construction dropped */;'
        s = self.rv(n, discard=True)
        return '\n'.join(self.flush_pre(ind) + [I + s + ';'] + self.post_exc(ind))

    def post_exc(self, ind):
        if self.pending_exc_check:
            self.pending_exc_check = False
            return ['  ' * ind + self.exc_return()]
        return []

    def cond_exc(self, ind):
        return self.post_exc_hoisted(ind)

    def post_exc_hoisted(self, ind):
        # conditions: a may-throw call inside a condition was hoisted into self.pre already
        if self.pending_exc_check:
            raise Unsupported('un-hoisted may-throw call in condition')
        return []

    def block(self, n, ind):
        if n.get('kind') == 'CompoundStmt':
            return self.stmt(n, ind)
        I = '  ' * ind
        return I + '{\n' + self.stmt(n, ind + 1) + '\n' + I + '}'

    def ghost_hook(self, kind, k, ind):
        name = 'XV_GHOST_%s_%s_%d' % (kind, self.cur_nm, k)
        if self.have_macro(name):
            return ['  ' * ind + name + ';']
        return []

    def ghost_after(self, k, ind):
        """ghost statement hook after loop k (defined in the contracts header; may only assign xv_* ghost variables)"""
        name = 'XV_GHOST_AFTER_%s_%d' % (self.cur_nm, k)
        if self.have_macro(name):
            return ['  ' * ind + name + ';']
        return []

    def loop_tag(self):
        self.loopk += 1
        if self.have_loop(self.cur_nm, self.loopk):
            return ' XV_LOOP_%s_%d' % (self.cur_nm, self.loopk)
        return ''

    MSG_TYPES = ('basic_ostringstream', 'basic_ostream', 'basic_stringstream', 'ostringstream')

    def is_message_type(self, t):
        return any(k in t for k in self.MSG_TYPES)

    def vardecl(self, v, ind):
        I = '  ' * ind
        vt = dq(v['type'])
        if self.is_message_type(vt):
            self.std.used.add('exception message text dropped (ostringstream)')
            return [I + '/* exception message construction dropped */']
        name = v['name']
        init = [c for c in v.get('inner', []) if 'kind' in c and c['kind'] not in ('FullComment',) and 'valueCategory' in c or c.get('kind') in ('InitListExpr', 'CXXConstructExpr', 'ExprWithCleanups')]
        st = ''
        if v.get('storageClass') == 'static':
            # function-local `static const(expr)` tables become automatic const arrays (initialised on entry): the contract
            # instrumentation treats every static as arbitrary at function entry, which is only right for mutable ones
            st = 'const ' if (vt.strip().startswith('const ') or v.get('constexpr')) else 'static '
        if self.is_ref(vt):
            if not init:
                raise Unsupported('reference without init')
            e = self.addr(init[0])
            return self.flush_pre(ind) + [I + '%s%s = %s;' % (st, self.cdecl(vt, name), e)] + self.post_exc(ind)
        decl = self.cdecl(vt, name)
        if not init:
            out = [I + st + decl + ';']
            return out
        e0 = self.skip_wrappers(init[0])
        if (st or re.search(r'\[\d+\]$', strip_cv(vt))) and e0.get('kind') == 'InitListExpr':
            if st == 'const ':
                return [I + '%s%s = %s;' % (st, decl, self.c_initializer(e0))]
            # static const tables: emit a C initialiser
            return [I + '%s%s = %s;' % (st, decl, self.c_initializer(e0))]
        if e0.get('kind') in ('CXXConstructExpr', 'CXXTemporaryObjectExpr', 'InitListExpr') and \
                not (e0.get('kind') != 'InitListExpr' and self.is_trivial_copy(e0)):
            s = self.init_into(name, vt, init[0])
            return [I + decl + ';'] + self.flush_pre(ind) + [I + s + ';'] + self.post_exc(ind)
        e = self.rv_init(init[0], self.ctype(vt))
        return self.flush_pre(ind) + [I + '%s%s = %s;' % (st, decl, e)] + self.post_exc(ind)

    def c_initializer(self, e):
        items = [x for x in e.get('inner', []) if 'kind' in x]
        parts = []
        for it in items:
            it0 = self.skip_wrappers(it)
            if it0.get('kind') == 'InitListExpr':
                parts.append(self.c_initializer(it0))
            else:
                parts.append(self.rv(it))
        return '{' + ', '.join(parts or ['0']) + '}'

    def is_trivial_copy(self, e):
        """CXXConstructExpr that is a trivial copy/move of a prvalue or lvalue"""
        if e.get('kind') not in ('CXXConstructExpr', 'CXXTemporaryObjectExpr'):
            return False
        args = [x for x in e.get('inner', []) if 'kind' in x]
        if len(args) != 1:
            return False
        ctor = self.find_ctor(e)
        if ctor is None:
            return self.std.is_value_type(dq(e['type']), self) and \
                norm_t(dq(args[0]['type'])).rstrip('&') == norm_t(dq(e['type']))
        return bool(ctor.get('isImplicit') or ctor.get('explicitlyDefaulted') == 'default') and \
            self.is_copy_move_ctor(ctor, e)

    def is_copy_move_ctor(self, ctor, e):
        ps = self.params(ctor)
        if len(ps) != 1:
            return False
        pt = norm_t(dq(ps[0]['type'])).rstrip('&')
        return pt == norm_t(dq(e['type']))

    def rv_init(self, e, ct):
        """rvalue used to initialise an object of C type ct"""
        return self.rv(e)

    # ---------- expressions ----------
    def newtmp(self, ct, tag='t'):
        self.tmpn += 1
        nm = '__%s%d' % (tag, self.tmpn)
        if tag == 'z':
            self.tmps.append('%s %s = {0}' % (ct, nm) if not ct.endswith('*') else '%s %s = 0' % (ct, nm))
        else:
            self.tmps.append('%s %s' % (ct, nm))
        return nm

    def addr(self, n):
        k = n.get('kind')
        if k == 'MaterializeTemporaryExpr':
            inner = n['inner'][0]
            tstr = dq(n['type'])
            ct = self.ctype(tstr)
            t = self.newtmp(ct)
            i0 = self.skip_wrappers(inner)
            if i0.get('kind') in ('CXXConstructExpr', 'CXXTemporaryObjectExpr') and not self.is_trivial_copy(i0):
                return '(%s, &%s)' % (self.construct_into('(&%s)' % t, i0), t)
            if i0.get('kind') == 'InitListExpr':
                return '(%s, &%s)' % (self.initlist_into(t, tstr, i0), t)
            return '(%s = %s, &%s)' % (t, self.rv(inner), t)
        if k in ('ExprWithCleanups', 'ParenExpr', 'ConstantExpr', 'SubstNonTypeTemplateParmExpr', 'CXXBindTemporaryExpr') \
                or (k == 'ImplicitCastExpr' and n.get('castKind') == 'NoOp') \
                or (k in ('CXXStaticCastExpr', 'CXXConstCastExpr', 'CStyleCastExpr', 'CXXFunctionalCastExpr') and n.get('castKind') == 'NoOp'):
            return self.addr(n['inner'][-1])
        if k == 'StringLiteral':
            return self.rv(n)
        if n.get('valueCategory') == 'prvalue':
            # binding a reference to a prvalue without MaterializeTemporaryExpr (e.g. scalar)
            ct = self.ctype(dq(n['type']))
            t = self.newtmp(ct)
            return '(%s = %s, &%s)' % (t, self.rv(n), t)
        lv = self.lv(n)
        if lv.startswith('(*') and lv.endswith(')') and self._balanced(lv[2:-1]):
            return '(' + lv[2:-1] + ')'
        return '(&' + lv + ')'

    def _balanced(self, s):
        d = 0
        for ch in s:
            if ch == '(':
                d += 1
            elif ch == ')':
                d -= 1
                if d < 0:
                    return False
        return d == 0

    def declref_lv(self, n):
        rd = n['referencedDecl']
        decl = self.tu.byid.get(rd['id'], rd)
        dt = dq(decl.get('type', rd.get('type')))
        if rd['kind'] in ('VarDecl', 'ParmVarDecl'):
            if rd['kind'] == 'VarDecl' and self.is_global_var(decl):
                return self.global_var(decl)
            name = rd.get('name') or self.unnamed_param(rd['id'])
            if self.is_ref(dt):
                return '(*%s)' % name
            return name
        if rd['kind'] == 'FunctionDecl' or rd['kind'] == 'CXXMethodDecl':
            return self.want(self.tu.byid[rd['id']])
        raise Unsupported('declref lv ' + rd['kind'])

    def is_empty_record(self, tstr):
        rec = self.find_record(strip_cv(tstr))
        return rec is not None and not rec.get('bases') and not [c for c in rec.get('inner', []) if c.get('kind') == 'FieldDecl']

    def unnamed_param(self, pid):
        for i, p in enumerate(self.params(self.cur_fn)):
            if p['id'] == pid:
                return '_p%d' % i
        raise Unsupported('reference to an unnamed declaration')

    def is_global_var(self, decl):
        p = decl.get('_p') or {}
        return p.get('kind') != 'DeclStmt'

    def global_var(self, decl):
        """namespace-scope / static member variable: emitted once as a C global with its initialiser"""
        gid = decl['id']
        if gid in self.globals:
            return self.globals[gid][0]
        # find the definition with an initialiser
        d = decl
        init = [c for c in d.get('inner', []) if 'kind' in c and ('valueCategory' in c or c['kind'] == 'InitListExpr')]
        q = self.tu.qualname(decl) if decl.get('_p') else decl.get('name')
        par = decl.get('_p') or {}
        if par.get('kind') in REC_KINDS and not self.tu.in_repo(par) and self.rec_alias_of(par) is None:
            nm = 'g_' + san(self.tu.qualname(par)) + '_' + decl['name']          # static member of a library class (e.g. std::string::npos)
        elif par.get('kind') in REC_KINDS:
            nm = 'g_' + self.struct_for(par)[2:] + '_' + decl['name']
        else:
            nm = 'g_' + san((q + '_' if q else '') + decl['name'])
        vt = dq(decl['type'])
        if not init:
            raise Unsupported('global var without init ' + decl.get('name', ''))
        e0 = self.skip_wrappers(init[0])
        self.globals[gid] = (nm, None)
        if e0.get('kind') == 'InitListExpr':
            text = 'static const %s = %s;' % (self.cdecl(vt, nm), self.c_initializer(e0))
        elif self.is_empty_record(vt) or (e0.get('kind') in ('CXXConstructExpr', 'CXXTemporaryObjectExpr') and not [x for x in e0.get('inner', []) if 'kind' in x]):
            text = 'static const %s = {0};' % self.cdecl(vt, nm)     # value-initialised tag object
        else:
            text = 'static const %s = %s;' % (self.cdecl(vt, nm), self.rv(init[0]))
        self.globals[gid] = (nm, text)
        self.global_order.append(gid)      # completion order: a constant defined through another one comes after it
        return nm

    def lv(self, n):
        k = n.get('kind')
        if k in ('ParenExpr', 'ExprWithCleanups', 'ConstantExpr', 'SubstNonTypeTemplateParmExpr', 'CXXBindTemporaryExpr'):
            return '(' + self.lv(n['inner'][-1]) + ')'
        if k == 'DeclRefExpr':
            return self.declref_lv(n)
        if k == 'MemberExpr':
            base = n['inner'][0]
            fld = self.tu.byid.get(n['referencedMemberDecl'])
            if fld is None:
                raise Unsupported('member decl not found ' + n.get('name', ''))
            if fld.get('kind') == 'VarDecl':   # static data member
                return self.global_var(fld)
            ft = dq(fld['type'])
            if n.get('isArrow'):
                b = '%s->' % self.rv(base)
            else:
                if base.get('valueCategory') == 'prvalue':
                    ct = self.ctype(dq(base['type']))
                    t = self.newtmp(ct)
                    b = '(%s = %s, &%s)->' % (t, self.rv(base), t)
                else:
                    b = '%s.' % self.lv(base)
            e = b + n['name']
            if self.is_ref(ft):
                return '(*%s)' % e
            return e
        if k == 'UnaryOperator' and n['opcode'] == '*':
            return '(*%s)' % self.rv(n['inner'][0])
        if k == 'UnaryOperator' and n['opcode'] in ('++', '--') and not n.get('isPostfix'):
            l = self.lv(n['inner'][0])
            return '(*(%s%s, &%s))' % (n['opcode'], l, l)
        if k == 'UnaryOperator' and n['opcode'] in ('__real', '__imag'):
            raise Unsupported('__real/__imag')
        if k == 'ArraySubscriptExpr':
            a, i = n['inner']
            return '%s[%s]' % (self.rv(a), self.rv(i))
        if k == 'ImplicitCastExpr' or k in ('CXXStaticCastExpr', 'CXXConstCastExpr', 'CStyleCastExpr', 'CXXReinterpretCastExpr', 'CXXFunctionalCastExpr'):
            ck = n.get('castKind')
            e = n['inner'][-1]
            if ck == 'NoOp':
                return self.lv(e)
            if ck in ('DerivedToBase', 'UncheckedDerivedToBase'):
                return self.to_base_lv(n, e)
            if ck == 'BaseToDerived':
                return '(*(%s*)%s)' % (self.ctype(strip_cv(dq(n['type'])).rstrip('&')), self.addr(e))
            if ck == 'LValueBitCast':
                return '(*(%s*)%s)' % (self.ctype(strip_cv(dq(n['type'])).rstrip('&')), self.addr(e))
            if ck == 'UserDefinedConversion':
                return self.lv(e)        # conversion function returning a reference: the call below yields the lvalue
            raise Unsupported('lvalue cast ' + str(ck))
        if k in ('BinaryOperator', 'CompoundAssignOperator') and (n['opcode'].endswith('=') and n['opcode'] not in ('==', '!=', '<=', '>=')):
            l, r = n['inner']
            ll = self.lv(l)
            return '(*(%s, &%s))' % (self.rv(n), ll)
        if k == 'BinaryOperator' and n['opcode'] == ',':
            l, r = n['inner']
            return '(*(%s, %s))' % (self.rv(l, True), self.addr(r))
        if k in ('CXXMemberCallExpr', 'CallExpr', 'CXXOperatorCallExpr'):
            return '(*%s)' % self.call(n)
        if k == 'MaterializeTemporaryExpr':
            return '(*%s)' % self.addr(n)
        if k == 'ConditionalOperator':
            c, a, b = n['inner']
            return '(*(%s ? %s : %s))' % (self.rv(c), self.addr(a), self.addr(b))
        if k == 'StringLiteral':
            return self.rv(n)
        if k == 'CXXDefaultArgExpr':
            raise Unsupported('default arg as lvalue')
        if k == 'PredefinedExpr':
            return '""'
        raise Unsupported('lv ' + str(k) + ' ' + json.dumps({kk: v for kk, v in n.items() if kk not in ('inner', 'range', 'loc', '_p', '_file')})[:200])

    def to_base_lv(self, n, e):
        """DerivedToBase conversion on an lvalue (or pointer, see rv): follow the path"""
        obj = self.lv(e)
        return self.base_path(obj, dq(e['type']), n.get('path', []), '.')

    def base_path(self, obj, from_t, path, op):
        cur_t = strip_cv(from_t).rstrip('*& ').strip()
        out = obj
        for step in path:
            rec = self.find_record(cur_t)
            if rec is None:
                raise Unsupported('base path: unknown record ' + cur_t)
            # path element names only the base's short name; locate among bases
            idx = None
            for i, b in enumerate(rec.get('bases', [])):
                bt = dq(b['type'])
                short = re.sub(r'<.*', '', bt).split('::')[-1]
                if short == step['name']:
                    idx = i; cur_t = bt
                    break
            if idx is None:
                raise Unsupported('base %s not found in %s' % (step['name'], cur_t))
            out = '%s%s__base_%d' % (out, op, idx)
            op = '.'
        return out

    INT_CASTS = ('IntegralCast', 'IntegralToBoolean', 'BooleanToSignedIntegral', 'IntegralToFloating', 'FloatingToIntegral',
                 'FloatingCast', 'PointerToBoolean', 'FloatingToBoolean')

    def rv(self, n, discard=False):
        k = n.get('kind')
        if k == 'ImplicitCastExpr' or k in ('CStyleCastExpr', 'CXXFunctionalCastExpr', 'CXXStaticCastExpr', 'CXXReinterpretCastExpr', 'CXXConstCastExpr'):
            ck = n.get('castKind')
            e = [x for x in n['inner'] if 'kind' in x][-1]
            if ck == 'LValueToRValue':
                return self.lv(e)
            if ck in ('NoOp', 'ConstructorConversion', 'UserDefinedConversion'):
                return self.rv(e) if e.get('valueCategory') == 'prvalue' else self.lv(e)
            if ck in self.INT_CASTS:
                return '((%s)%s)' % (self.ctype(dq(n['type'])), self.rv(e))
            if ck == 'NullToPointer':
                return '((void*)0)'
            if ck in ('BitCast', 'IntegralToPointer', 'PointerToIntegral'):
                return '((%s)%s)' % (self.ctype(dq(n['type'])), self.rv(e))
            if ck == 'ArrayToPointerDecay':
                if e.get('kind') == 'StringLiteral':
                    return self.rv(e)
                e1 = e
                while e1.get('kind') in ('ParenExpr',) or (e1.get('kind') == 'ImplicitCastExpr' and e1.get('castKind') == 'NoOp'):
                    e1 = e1['inner'][0]
                if e1.get('kind') in ('CXXMemberCallExpr', 'CallExpr', 'CXXOperatorCallExpr'):
                    return self.call(e1)       # function returning a reference to an array: lowered to a pointer to its first element
                if e1.get('kind') == 'DeclRefExpr' and e1['referencedDecl']['kind'] in ('ParmVarDecl', 'VarDecl'):
                    d = self.tu.byid.get(e1['referencedDecl']['id'], e1['referencedDecl'])
                    if re.search(r'\(&&?\)\s*\[', dq(d.get('type', {'qualType': ''}))):
                        return d['name']      # reference to array is lowered to a pointer to its first element
                return '(&%s[0])' % self.lv(e)
            if ck == 'FunctionToPointerDecay':
                return self.lv(e)
            if ck in ('DerivedToBase', 'UncheckedDerivedToBase'):
                if strip_cv(dq(n['type'])).endswith('*'):
                    return '(&' + self.base_path(self.rv(e), dq(e['type']), n.get('path', []), '->') + ')'
                return self.to_base_lv(n, e)
            if ck == 'BaseToDerived':
                return '((%s)%s)' % (self.ctype(dq(n['type'])), self.rv(e))
            if ck == 'ToVoid':
                return '((void)%s)' % self.rv(e, True)
            if ck == 'Dependent':
                raise Unsupported('dependent cast (pattern function lowered by mistake?)')
            raise Unsupported('cast ' + str(ck))
        if k == 'ParenExpr':
            return '(' + self.rv(n['inner'][0], discard) + ')'
        if k in ('ExprWithCleanups', 'ConstantExpr', 'SubstNonTypeTemplateParmExpr', 'CXXBindTemporaryExpr'):
            return self.rv([x for x in n['inner'] if 'kind' in x][-1], discard)
        if k == 'IntegerLiteral':
            t = dq(n['type'])
            suf = {'unsigned int': 'u', 'long': 'l', 'unsigned long': 'ul', 'long long': 'll', 'unsigned long long': 'ull'}.get(t, '')
            return n['value'] + suf
        if k == 'FloatingLiteral':
            v = n['value']
            t = dq(n['type'])
            if re.fullmatch(r'-?\d+', v):
                v += '.0'
            return v + ('f' if t == 'float' else ('L' if t == 'long double' else ''))
        if k == 'CXXBoolLiteralExpr':
            return '1' if n['value'] else '0'
        if k == 'CharacterLiteral':
            return '((%s)%d)' % (self.ctype(dq(n['type'])), n['value'])
        if k == 'StringLiteral':
            return n['value']
        if k == 'CXXNullPtrLiteralExpr' or k == 'GNUNullExpr':
            return '((void*)0)'
        if k == 'CXXThisExpr':
            return 'self'
        if k == 'ImplicitValueInitExpr' or k == 'CXXScalarValueInitExpr':
            ct = self.ctype(dq(n['type']))
            if ct.startswith('struct ') and not ct.endswith('*'):
                return self.newtmp(ct, 'z')
            return '((%s)0)' % ct
        if k == 'UnaryExprOrTypeTraitExpr':
            if n.get('name') == 'sizeof':
                at = n.get('argType')
                if at:
                    return 'sizeof(%s)' % self.ctype(dq(at))
                return 'sizeof(%s)' % self.rv_or_lv(n['inner'][0])
            if n.get('name') == 'alignof':
                return '_Alignof(%s)' % self.ctype(dq(n['argType']))
            raise Unsupported('trait ' + str(n.get('name')))
        if k == 'DeclRefExpr':
            rd = n['referencedDecl']
            if rd['kind'] in ('VarDecl', 'ParmVarDecl'):
                decl = self.tu.byid.get(rd['id'])
                if decl is not None and decl.get('kind') == 'VarDecl' and self.is_global_var(decl):
                    return self.const_global(decl)
                return self.lv(n)
            if rd['kind'] == 'EnumConstantDecl':
                return self.enum_const(rd)
            if rd['kind'] in ('FunctionDecl', 'CXXMethodDecl'):
                return self.want(self.tu.byid[rd['id']])
            if rd['kind'] == 'NonTypeTemplateParmDecl':
                raise Unsupported('template parameter reference (pattern lowered?)')
            raise Unsupported('declref rv ' + rd['kind'])
        if k == 'UnaryOperator':
            op = n['opcode']
            e = n['inner'][0]
            if op == '&':
                return self.addr(e)
            if op == '*':
                return self.lv(n)
            if op in ('++', '--'):
                if n.get('isPostfix'):
                    return '(%s%s)' % (self.lv(e), op)
                return '(%s%s)' % (op, self.lv(e))
            if op == '__extension__':
                return self.rv(e)
            return '(%s%s)' % (op, self.rv(e))
        if k == 'BinaryOperator':
            op = n['opcode']
            l, r = n['inner']
            if op == '=':
                lt = dq(l['type'])
                r0 = self.skip_wrappers(r)
                return '(%s = %s)' % (self.lv(l), self.rv(r))
            if op == ',':
                return '(%s, %s)' % (self.rv(l, True), self.rv(r, discard))
            if op in ('&&', '||', ):
                a = self.rv(l)
                npre = len(self.pre)
                b = self.rv(r)
                if len(self.pre) != npre:
                    raise Unsupported('may-throw call under short-circuit operator')
                return '(%s %s %s)' % (a, op, b)
            if op in ('.*', '->*'):
                raise Unsupported('pointer to member')
            if op in ('+', '-') and self.uf_mul == 'floatall' and self.ctype(dq(n['type'])) == 'float':
                return 'XV_F%s32(%s, %s)' % ('ADD' if op == '+' else 'SUB', self.rv(l), self.rv(r))
            if op in ('*', '/', '%') and self.uf_mul:
                ct = self.ctype(dq(n['type']))
                nm = {'*': 'MUL', '/': 'DIV', '%': 'MOD'}[op]
                if ct in ('unsigned int', 'unsigned long') and (op == '*' or self.uf_mul in ('muldiv', 'all')):
                    return 'XV_U%s%d(%s, %s)' % (nm, 32 if ct == 'unsigned int' else 64, self.rv(l), self.rv(r))
                if ct in ('int', 'long') and self.uf_mul == 'all':
                    return 'XV_S%s%d(%s, %s)' % (nm, 32 if ct == 'int' else 64, self.rv(l), self.rv(r))
                if ct == 'float' and self.uf_mul in ('float', 'floatall') and op in ('*', '/'):
                    return 'XV_F%s32(%s, %s)' % (nm, self.rv(l), self.rv(r))
            return '(%s %s %s)' % (self.rv(l), op, self.rv(r))
        if k == 'CompoundAssignOperator':
            l, r = n['inner']
            ct = self.ctype(dq(n['type']))
            comp = dq(n.get('computeResultType', n['type']))
            lt = dq(n.get('computeLHSType', n['type']))
            op = n['opcode'][:-1]
            ll = self.lv(l)
            if op == '*' and self.uf_mul and ct in ('unsigned int', 'unsigned long') and self.ctype(comp) == ct and self.ctype(lt) == ct:
                return '(%s = XV_UMUL%d(%s, %s))' % (ll, 32 if ct == 'unsigned int' else 64, ll, self.rv(r))
            if op in ('*', '/', '%') and self.uf_mul == 'all' and ct in ('int', 'long') and self.ctype(comp) == ct and self.ctype(lt) == ct:
                return '(%s = XV_S%s%d(%s, %s))' % (ll, {'*': 'MUL', '/': 'DIV', '%': 'MOD'}[op], 32 if ct == 'int' else 64, ll, self.rv(r))
            if op in ('*', '/', '+', '-') and self.uf_mul in ('float', 'floatall') and ct == 'float' and self.ctype(comp) == ct and self.ctype(lt) == ct and (op in '*/' or self.uf_mul == 'floatall'):
                return '(%s = XV_F%s32(%s, %s))' % (ll, {'*': 'MUL', '/': 'DIV', '+': 'ADD', '-': 'SUB'}[op], ll, self.rv(r))
            # make the usual arithmetic conversions of C++ explicit
            if self.ctype(lt) != ct or self.ctype(comp) != ct:
                return '(%s = (%s)((%s)%s %s %s))' % (ll, ct, self.ctype(lt), ll, op, self.rv(r))
            return '(%s %s %s)' % (ll, n['opcode'], self.rv(r))
        if k == 'ConditionalOperator':
            c, a, b = n['inner']
            cc = self.rv(c)
            npre = len(self.pre)
            if dq(n['type']) == 'void':
                s = '(%s ? (%s, 0) : (%s, 0))' % (cc, self.rv(a, True), self.rv(b, True))
            elif n.get('valueCategory') == 'lvalue':
                s = self.lv(n)
            else:
                s = '(%s ? %s : %s)' % (cc, self.rv(a), self.rv(b))
            if len(self.pre) != npre:
                raise Unsupported('may-throw call inside conditional operator')
            return s
        if k in ('CXXMemberCallExpr', 'CallExpr', 'CXXOperatorCallExpr'):
            if n.get('valueCategory') in ('lvalue', 'xvalue'):
                return self.lv(n)
            return self.call(n, discard)
        if k == 'ArraySubscriptExpr' or k == 'MemberExpr':
            return self.lv(n)
        if k in ('CXXConstructExpr', 'CXXTemporaryObjectExpr'):
            args = [x for x in n.get('inner', []) if 'kind' in x]
            if self.is_trivial_copy(n):
                return self.rv_or_lv(args[0])
            ct = self.ctype(dq(n['type']))
            t = self.newtmp(ct)
            return '(%s, %s)' % (self.construct_into('(&%s)' % t, n), t)
        if k == 'InitListExpr':
            tstr = dq(n['type'])
            ct = self.ctype(tstr)
            items = [x for x in n.get('inner', []) if 'kind' in x]
            if not (ct.startswith('struct ') or ct.startswith('xv_')) and len(items) == 1:
                return self.rv(items[0])
            if not (ct.startswith('struct ') or ct.startswith('xv_')) and len(items) == 0:
                return '((%s)0)' % ct
            t = self.newtmp(ct)
            return '(%s, %s)' % (self.initlist_into(t, tstr, n), t)
        if k == 'MaterializeTemporaryExpr':
            return self.lv(n)
        if k == 'CXXDefaultArgExpr':
            raise Unsupported('default arg (needs callee lookup)')
        if k == 'CXXDefaultInitExpr':
            raise Unsupported('default member init')
        if k == 'CXXThrowExpr':
            return self.throw(n)
        if k == 'CXXNewExpr' or k == 'CXXDeleteExpr':
            raise Unsupported('new/delete')
        if k == 'LambdaExpr':
            raise Unsupported('lambda')
        if k == 'PredefinedExpr':
            return '""'
        if k == 'CXXNoexceptExpr':
            return '1' if n.get('value') else '0'
        if k == 'TypeTraitExpr':
            raise Unsupported('type trait expr')
        if k == 'SizeOfPackExpr':
            raise Unsupported('sizeof...')
        if k == 'StmtExpr':
            raise Unsupported('statement expression')
        if k == 'OpaqueValueExpr':
            return self.rv(n['inner'][0])
        if k == 'BinaryConditionalOperator':
            raise Unsupported('?: elvis')
        raise Unsupported('rv ' + str(k) + ' ' + json.dumps({kk: v for kk, v in n.items() if kk not in ('inner', 'range', 'loc', '_p', '_file')})[:300])

    def _is_ptr_model(self, e):
        return False

    def enum_const(self, rd):
        d = self.tu.byid.get(rd['id'])
        if d is not None:
            # value is in a ConstantExpr child when explicitly given; otherwise compute from position
            p = d.get('_p')
            val = 0
            for c in p.get('inner', []):
                if c.get('kind') != 'EnumConstantDecl':
                    continue
                ex = [x for x in c.get('inner', []) if 'kind' in x and x['kind'] != 'FullComment']
                if ex:
                    v = self.const_value(ex[0])
                    if v is None:
                        raise Unsupported('enum value of ' + c['name'])
                    val = v
                if c is d or c['id'] == d['id']:
                    return '(%d)' % val
                val += 1
        raise Unsupported('enum constant ' + rd.get('name', ''))

    def const_value(self, e):
        if e.get('kind') == 'ConstantExpr' and 'value' in e:
            try:
                return int(e['value'])
            except ValueError:
                return None
        if e.get('kind') == 'IntegerLiteral':
            return int(e['value'])
        if e.get('kind') in ('ImplicitCastExpr', 'ParenExpr', 'ConstantExpr'):
            return self.const_value(e['inner'][0])
        return None

    def const_global(self, decl):
        """use of a namespace-scope constant / static constexpr member in an rvalue position"""
        vt = dq(decl['type'])
        init = [c for c in decl.get('inner', []) if 'kind' in c and ('valueCategory' in c or c['kind'] == 'InitListExpr')]
        if not init:
            # static member declared in class, defined elsewhere: find by name among redecls
            for n2 in self.tu.byid.values():
                if n2.get('kind') == 'VarDecl' and n2.get('name') == decl.get('name') and n2.get('mangledName') == decl.get('mangledName') and n2 is not decl:
                    init = [c for c in n2.get('inner', []) if 'kind' in c and ('valueCategory' in c or c['kind'] == 'InitListExpr')]
                    if init:
                        decl = n2
                        break
        if not init:
            hook = self.std.global_var(decl, self)
            if hook is not None:
                return hook
            raise Unsupported('global var without init ' + decl.get('name', ''))
        if re.search(r'\[\d*\]', vt) or self.skip_wrappers(init[0]).get('kind') == 'InitListExpr':
            return self.global_var(decl)
        # scalar constant: inline the initialiser (it is a constant expression)
        v = self.const_value(init[0])
        ct = self.ctype(vt)
        if v is not None:
            return '((%s)%d%s)' % (ct, v, 'ull' if v > 0x7fffffff else '')
        return '((%s)%s)' % (ct, self.rv(init[0]))

    def throw(self, n):
        inner = [x for x in n.get('inner', []) if 'kind' in x]
        self.throws.add(self.cur_m)
        if not inner:
            raise Unsupported('rethrow')
        et = norm_t(dq(inner[0]['type']))
        code = 'XV_EXC_' + san(et.replace('std::', ''))
        self.exc_codes.add(code)
        self.pending_exc_check = True
        return '(xv_exc = %s)' % code

    def find_ctor(self, n):
        tstr = dq(n['type'])
        rec = self.find_record(tstr)
        if rec is None:
            return None
        want = n.get('ctorType', {}).get('qualType')
        cands = []
        for c in rec.get('inner', []):
            if c.get('kind') == 'CXXConstructorDecl':
                cands.append(c)
            elif c.get('kind') == 'FunctionTemplateDecl':
                for s in c.get('inner', []):
                    if s.get('kind') == 'CXXConstructorDecl':
                        cands.append(s)
        for c in cands:
            if c['type']['qualType'] == want and not self.tu.is_pattern(c):
                return c
        for c in cands:
            if dq(c['type']) == want and not self.tu.is_pattern(c):
                return c
        return None

    def construct_into(self, target, n):
        tstr = dq(n['type'])
        args = [x for x in n.get('inner', []) if 'kind' in x]
        std = self.std.construct(tstr, n, target, args, self)
        if std is not None:
            return std
        rec = self.find_record(tstr)
        if rec is None:
            raise Unsupported('construct unknown record ' + tstr)
        ctor = self.find_ctor(n)
        if ctor is None:
            want = n.get('ctorType', {}).get('qualType', '')
            mm = re.fullmatch(r'void \((?:const )?(.+?) ?&&?\)(?: noexcept)?', want)
            if mm and len(args) == 1 and norm_t(mm.group(1)) == norm_t(strip_cv(tstr)):
                # implicitly declared copy / move constructor that clang did not materialise in this specialisation: memberwise copy
                return '(*%s = %s)' % (target, self.rv_or_lv(args[0]))
            raise Unsupported('ctor not found %s for %s' % (want, tstr))
        if ctor.get('isImplicit') or (ctor.get('explicitlyDefaulted') == 'default') or (self.tu.definition(ctor) is None and self.is_trivial_rec(rec)):
            if len(args) == 1 and self.is_copy_move_ctor(ctor, n):
                return '(*%s = %s)' % (target, self.rv_or_lv(args[0]))
            if len(args) == 0:
                return self.default_construct(target, rec)
        nm = self.want(ctor)
        return self.emit_call(ctor, nm, [target] + self.args(ctor, args), 'void')

    def is_trivial_rec(self, rec):
        return True

    def default_construct(self, target, rec):
        """implicit default constructor: default-construct bases and members that need it"""
        parts = []
        for i, b in enumerate(rec.get('bases', [])):
            brec = self.find_record(dq(b['type']))
            if brec is not None:
                parts.append(self.default_construct_member('(&%s->__base_%d)' % (target, i), dq(b['type'])))
        for c in rec.get('inner', []):
            if c.get('kind') == 'FieldDecl':
                init = [x for x in c.get('inner', []) if 'kind' in x and 'valueCategory' in x]
                ft = dq(c['type'])
                if init:
                    parts.append(self.init_into('%s->%s' % (target, c['name']), ft, init[0]))
                else:
                    parts.append(self.default_construct_member('(&%s->%s)' % (target, c['name']), ft))
        parts = [p for p in parts if p and p != '((void)0)']
        return '(' + ', '.join(parts) + ')' if parts else '((void)0)'

    def default_construct_member(self, target, tstr):
        s = self.std.default_construct(tstr, target, self)
        if s is not None:
            return s
        rec = self.find_record(tstr)
        if rec is None:
            return '((void)0)'    # scalars stay uninitialised, as in C++
        # user-provided default ctor?
        for c in rec.get('inner', []):
            if c.get('kind') == 'CXXConstructorDecl' and not self.params(c) and not c.get('isImplicit') \
                    and c.get('explicitlyDefaulted') != 'default':
                d = self.tu.definition(c)
                if d is not None:
                    return self.emit_call(d, self.want(d), [target], 'void')
        return self.default_construct(target, rec)

    def rv_or_lv(self, e):
        return self.rv(e) if e.get('valueCategory') == 'prvalue' else self.lv(e)

    def args(self, callee, args):
        params = self.params(callee)
        out = []
        for i, a in enumerate(args):
            if a.get('kind') == 'CXXDefaultArgExpr':
                a = self.default_arg(callee, i)
            pt = dq(params[i]['type']) if i < len(params) else ''
            if self.is_ref(pt):
                out.append(self.addr(a))
            else:
                out.append(self.rv_arg(a, pt))
        return out

    def rv_arg(self, a, pt):
        return self.rv(a)

    def default_arg(self, callee, i):
        cands = [callee]
        m = callee.get('mangledName')
        # defaults live on the first declaration; search redeclarations with the same mangled name
        for fn in self.tu.all_fns:
            if fn is not callee and m and fn.get('mangledName') == m:
                cands.append(fn)
        for fn in cands:
            ps = self.params(fn)
            if i < len(ps):
                init = [c for c in ps[i].get('inner', []) if 'kind' in c and 'valueCategory' in c]
                if init:
                    return init[0]
        raise Unsupported('default argument %d of %s not found' % (i, callee.get('name')))

    def callee_of(self, ce):
        while ce.get('kind') in ('ImplicitCastExpr', 'ParenExpr'):
            ce = ce['inner'][0]
        return ce

    def emit_call(self, callee, nm, argv, ret_ct, discard=False):
        """emit a call; if the callee may throw, hoist it into a pre-statement followed by the exception check"""
        m = (self.tu.definition(callee) or callee).get('mangledName') or callee['id']
        s = '%s(%s)' % (nm, ', '.join(argv))
        if m in self.maythrow:
            if ret_ct == 'void':
                self.pre.append('%s;' % s)
                self.pre.append(self.exc_return())
                return '((void)0)'
            t = self.newtmp(ret_ct, 'c')
            self.pre.append('%s = %s;' % (t, s))
            self.pre.append(self.exc_return())
            return t
        return s

    def model_call(self, name, argv, ret_ct, maythrow=False):
        """call into the C standard-library model; a model function that may set xv_exc is hoisted like any throwing call"""
        s = '%s(%s)' % (name, ', '.join(argv))
        if not maythrow:
            return s
        self.throws.add(self.cur_m)
        if ret_ct == 'void':
            self.pre.append('%s;' % s)
            self.pre.append(self.exc_return())
            return '((void)0)'
        t = self.newtmp(ret_ct, 'c')
        self.pre.append('%s = %s;' % (t, s))
        self.pre.append(self.exc_return())
        return t

    def call(self, n, discard=False):
        k = n['kind']
        inner = [x for x in n['inner'] if 'kind' in x]
        if k == 'CXXMemberCallExpr':
            me = self.callee_of(inner[0])
            if me.get('kind') != 'MemberExpr':
                raise Unsupported('member call through ' + str(me.get('kind')))
            callee = self.tu.byid.get(me['referencedMemberDecl'])
            if callee is None:
                raise Unsupported('callee not found: ' + me.get('name', ''))
            obj = me['inner'][0]
            objp = self.rv(obj) if me.get('isArrow') else self.addr(obj)
            std = self.std.method(callee, objp, obj, inner[1:], self, n)
            if std is not None:
                return std
            if callee.get('storageClass') == 'static':
                nm = self.want(callee)
                return self.emit_call(callee, nm, self.args(callee, inner[1:]), self.ret_ctype(callee))
            objp = self.adjust_this(objp, obj, me, callee)
            if self.is_trivial_assign(callee):
                return '(*%s = %s, %s)' % (objp, self.rv_or_lv(inner[1]), objp)
            nm = self.want(callee)
            return self.emit_call(callee, nm, [objp] + self.args(callee, inner[1:]), self.ret_ctype(callee))
        if k == 'CXXOperatorCallExpr':
            ce = self.callee_of(inner[0])
            callee = self.tu.byid.get(ce['referencedDecl']['id'])
            if callee is None:
                raise Unsupported('operator callee not found')
            if callee['kind'] == 'CXXMethodDecl' and callee.get('storageClass') != 'static':
                obj = inner[1]
                objp = self.addr(obj)
                std = self.std.method(callee, objp, obj, inner[2:], self, n)
                if std is not None:
                    return std
                objp = self.adjust_this(objp, obj, None, callee)
                if self.is_trivial_assign(callee):
                    return '(*%s = %s, %s)' % (objp, self.rv_or_lv(inner[2]), objp)
                nm = self.want(callee)
                return self.emit_call(callee, nm, [objp] + self.args(callee, inner[2:]), self.ret_ctype(callee))
            std = self.std.function(callee, inner[1:], self, n)
            if std is not None:
                return std
            nm = self.want(callee)
            return self.emit_call(callee, nm, self.args(callee, inner[1:]), self.ret_ctype(callee))
        if k == 'CallExpr':
            ce = self.callee_of(inner[0])
            if ce.get('kind') != 'DeclRefExpr':
                raise Unsupported('indirect call through ' + str(ce.get('kind')))
            callee = self.tu.byid.get(ce['referencedDecl']['id'])
            if callee is None:
                bi = self.std.builtin(ce['referencedDecl'], inner[1:], self, n)
                if bi is not None:
                    return bi
                raise Unsupported('callee decl not found: ' + ce['referencedDecl'].get('name', ''))
            std = self.std.function(callee, inner[1:], self, n)
            if std is not None:
                return std
            nm = self.want(callee)
            return self.emit_call(callee, nm, self.args(callee, inner[1:]), self.ret_ctype(callee))
        raise Unsupported('call ' + k)

    def is_trivial_assign(self, callee):
        return callee.get('name') == 'operator=' and (callee.get('isImplicit') or callee.get('explicitlyDefaulted') == 'default')

    def adjust_this(self, objp, obj, me, callee):
        """implicit derived-to-base adjustment of the object argument is an explicit cast in the AST
        (UncheckedDerivedToBase), so nothing to do here"""
        return objp

    # ---------- output ----------
    def emit_c(self, prelude_includes=(), after_structs=''):
        out = []
        for inc in prelude_includes:
            out.append('#include "%s"' % inc)
        out.append('')
        for i, c in enumerate(sorted(self.exc_codes)):
            out.append('#ifndef %s\n#define %s %d\n#endif' % (c, c, 100 + i))
        for s in self.struct_order:
            out.append(self.structs[s])
            out.append('')
        out.append(after_structs)
        for gid in self.global_order:
            nm, text = self.globals[gid]
            if text:
                out.append(text)
        out.append('')
        for m, fn in self.externs.items():
            out.append('extern ' + self.proto(fn) + ';   /* uninterpreted: ' + self.tu.qualname(fn) + ' */')
        for m in self.order:
            out.append(self.funcs[m][1] + ';')
        out.append('')
        for m in self.order:
            out.append(self.funcs[m][2])
        return '\n'.join(out) + '\n'
