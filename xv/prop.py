"""Common runner for a property check: build jobs, run, triage, replay, evidence, exit code."""
import os, sys, time, json, shutil, re, subprocess, traceback
from . import driver
from .driver import VERIF, OUT, REPO, ToolTrouble, run_jobs, trace_for, trace_inputs, write_evidence, ARITH_ASSUMPTIONS


def load_known(prop):
    """known_findings.txt: lines  'finding: property=<id> key=<job>/<obligation-regex> :: <what fails>'
    and 'fixed: property=<id> <commit> <what failed>' (the latter suppress nothing)"""
    out = []
    p = os.path.join(VERIF, 'known_findings.txt')
    if not os.path.exists(p):
        return out
    for l in open(p):
        l = l.strip()
        m = re.match(r'finding:\s+property=(\S+)\s+key=(\S+)\s+::\s+(.*)', l)
        if m and m.group(1) == prop:
            out.append({'key': m.group(2), 'what': m.group(3)})
    return out


def native_run(cpp_text, path_base, defines=(), timeout=120, std='c++14', extra=()):
    src = path_base + '.cpp'
    exe = path_base + '.bin'
    with open(src, 'w') as f:
        f.write(cpp_text)
    cmd = ['g++', '-std=' + std, '-O0', '-I', os.path.join(REPO, 'include'), src, '-o', exe] + ['-D' + d for d in defines] + list(extra)
    p = subprocess.run(cmd, stdout=subprocess.PIPE, stderr=subprocess.STDOUT)
    if p.returncode != 0:
        return None, 'replay program did not compile:\n' + p.stdout.decode(errors='replace')[-3000:]
    try:
        q = subprocess.run([exe], stdout=subprocess.PIPE, stderr=subprocess.STDOUT, timeout=timeout)
        out = q.stdout.decode(errors='replace')
        rc = q.returncode
    except subprocess.TimeoutExpired:
        out, rc = 'timeout', -9
    try:
        os.unlink(exe)
    except OSError:
        pass
    return rc, out


def main(mod, argv=None):
    argv = argv if argv is not None else sys.argv[1:]
    prop = mod.PROP
    tier = os.environ.get('VERIF_TIER', 'quick')
    if '--tier' in argv:
        tier = argv[argv.index('--tier') + 1]
    if tier not in ('quick', 'thorough'):
        tier = 'quick'
    try:
        seed = int(os.environ.get('VERIF_SEED', '0'))
    except ValueError:
        seed = 0
    only = None
    if '--only' in argv:
        only = argv[argv.index('--only') + 1]
    keep = '--keep' in argv or os.environ.get('XV_KEEP')
    t0 = time.time()
    workdir = os.path.join(OUT, 'work', '%s_%d' % (prop, os.getpid()))
    shutil.rmtree(workdir, ignore_errors=True)
    os.makedirs(workdir)
    ev_path = os.path.join(OUT, 'evidence', prop + '.json')
    rc = 2
    try:
        ctx = mod.build(tier, workdir, seed)
        jobs = ctx['jobs']
        if only:
            jobs = [j for j in jobs if re.search(only, j.name)]
        if not jobs:
            raise ToolTrouble('no proof jobs generated')
        print('[%s] %d verifier jobs (%s tier), lowering took %.1fs' % (prop, len(jobs), tier, time.time() - t0), flush=True)
        results = run_jobs(jobs, workdir)
        if '--verbose' in argv or os.environ.get('XV_VERBOSE'):
            for j, r in zip(jobs, results):
                print('  job %-60s %-8s t=%6.1fs obligations=%d failed=%d %s' % (j.name, r['status'], r['time'], len(r['obligations']), len(r['failed']),
                      '; '.join('%s[%s]' % (o['id'], o['class']) for o in r['failed'][:4])), flush=True)
        trouble = [r for r in results if r['status'] == 'trouble']
        # negative jobs (mutation canaries written into the harness set) must be violated
        neg_bad = [r for j, r in zip(jobs, results) if j.kind == 'negative' and r['status'] == 'ok']
        for r in trouble[:10]:
            print('TOOL-TROUBLE job=%s: %s' % (r['job'], r['log'][:1500].replace('\n', '\n    ')), flush=True)
        if trouble:
            raise ToolTrouble('%d of %d verifier runs did not complete' % (len(trouble), len(jobs)))
        if neg_bad:
            raise ToolTrouble('negative control(s) unexpectedly verified: %s' % [r['job'] for r in neg_bad])
        # vacuity guards
        for j, r in zip(jobs, results):
            if j.kind in ('contract', 'lemma') and not r['obligations']:
                raise ToolTrouble('job %s generated zero obligations' % j.name)
            if j.kind in ('contract', 'lemma'):
                bad = [c for c in r['canaries'] if c['status'] != 'FAILURE']
                if bad or not r['canaries']:
                    raise ToolTrouble('vacuity: canary of %s did not fail (unsatisfiable precondition or unreachable end)' % j.name)
            if j.kind == 'contract' and j.loop_contracts and j.unwind is None:
                nl = j.info.get('contract_loops', 0)
                steps = len([o for o in r['obligations'] if o['class'] == 'loop_invariant_step'])
                if steps < nl:
                    raise ToolTrouble('job %s: %d loops but only %d loop_invariant_step obligations (dropped loop contract?)' % (j.name, nl, steps))
        known = load_known(prop)
        violations = 0
        known_hits = []
        os.makedirs(os.path.join(OUT, 'replays'), exist_ok=True)
        for j, r in zip(jobs, results):
            if j.kind == 'negative' or not r['failed']:
                continue
            fails = r['failed']
            # known findings: all failing obligations of this job must be covered by entries
            unk = []
            for ob in fails:
                key = '%s/%s' % (j.name, ob['id'])
                hit = [k for k in known if re.fullmatch(k['key'], key)]
                if hit:
                    known_hits.append((hit[0], key))
                else:
                    unk.append(ob)
            if not unk:
                continue
            violations += 1
            rp = os.path.join(OUT, 'replays', '%s_%s.txt' % (prop, j.name))
            tail = report_violation(mod, ctx, j, r, unk, rp, workdir)
            print('VIOLATION property=%s replay=%s%s' % (prop, rp, tail), flush=True)
        seen = set()
        for k, key in known_hits:
            if k['key'] in seen:
                continue
            seen.add(k['key'])
            print('KNOWN-FINDING: property=%s %s' % (prop, k['what']), flush=True)
        # known findings that no longer fail are reported (not an error)
        extra = dict(ctx.get('coverage_extra', {}))
        extra['known_findings_reported'] = sorted(seen)
        if known_hits:
            # obligations that fail only in the recorded, known way are not counted as discharged nor as open
            extra['known_finding_obligations'] = sorted(set(key for _, key in known_hits))
        ev = write_evidence(prop, tier, seed, results, jobs, time.time() - t0, extra,
                            ARITH_ASSUMPTIONS + ctx.get('assumptions', []), set(ctx.get('trusted_base', [])), violations)
        if known_hits and not violations:
            # schema: a proof claim needs discharged == obligations; known-finding obligations are set apart
            nk = len(set(key for _, key in known_hits))
            ev['coverage']['obligations'] -= nk
            ev['coverage']['obligations_failing_as_known_finding'] = nk
            with open(ev_path, 'w') as f:
                json.dump(ev, f, indent=1)
        c = ev['coverage']
        print('[%s] obligations=%d discharged=%d jobs=%d wall=%.1fs violations=%d' % (
            prop, c['obligations'], c['discharged'], len(jobs), time.time() - t0, violations), flush=True)
        rc = 1 if violations else 0
    except ToolTrouble as e:
        print('TOOL-TROUBLE property=%s: %s' % (prop, e), flush=True)
        rc = 2
    except Exception:
        traceback.print_exc()
        print('TOOL-TROUBLE property=%s: internal error in the checker' % prop, flush=True)
        rc = 2
    finally:
        if not keep:
            shutil.rmtree(workdir, ignore_errors=True)
            try:
                os.rmdir(os.path.join(OUT, 'work'))
            except OSError:
                pass
    return rc


def contract_clause_text(ctx, alias):
    for u in ctx.get('units', []):
        m = re.search(r'#\s*define\s+XV_CONTRACT_%s\b(.*?)(?=\n#|\Z)' % re.escape(alias), u.contracts_text, re.S)
        if m:
            return m.group(1).strip()
    return ''


def report_violation(mod, ctx, job, res, fails, rp, workdir):
    lines = []
    lines.append('property: %s' % job.prop)
    lines.append('verifier job: %s (kind=%s, back end=%s)' % (job.name, job.kind, job.backend))
    if job.enforce:
        lines.append('function under contract: %s' % job.enforce)
        lines.append('  source: %s  (%s)' % (job.info.get('source'), job.info.get('qualname')))
        lines.append('contract:\n' + contract_clause_text(ctx, job.enforce))
    lines.append('')
    lines.append('failed obligations:')
    for ob in fails:
        lines.append('  %s [%s] %s  at %s' % (ob['id'], ob['class'], ob['description'], ob['where']))
    lines.append('')
    lines.append('command: ' + res.get('cmd', ''))
    tail = ' no-failing-input-found'
    try:
        steps, err = trace_for(job, res, workdir, fails[0]['id'])
        if steps:
            ins = trace_inputs(steps)
            lines.append('')
            lines.append('verifier counterexample for %s (first assignments):' % fails[0]['id'])
            n = 0
            for k, v in ins.items():
                if not (k.startswith('in_') or k.startswith('out_') or k.startswith('xv_') or k.startswith('g_')) and \
                        not (job.enforce and v[0][2] == job.enforce):
                    continue
                lines.append('  %s = %s' % (k, v[0][0]))
                n += 1
                if n > 80:
                    break
            rep = getattr(mod, 'replay', None)
            if rep is not None:
                out = rep(ctx, job, fails[0], steps, os.path.splitext(rp)[0])
                if out is not None:
                    confirmed, text = out
                    lines.append('')
                    lines.append('replay on the real code (%s):' % ('failure reproduced' if confirmed else 'NOT reproduced'))
                    lines.append(text)
                    if confirmed:
                        tail = ''
        elif err:
            lines.append('trace run: ' + err)
    except Exception as e:
        lines.append('replay machinery error: %r' % e)
    if tail:
        lines.append('')
        lines.append('no concrete failing input was obtained: the failed obligation above is the report (no-failing-input-found)')
    with open(rp, 'w') as f:
        f.write('\n'.join(lines) + '\n')
    return tail
