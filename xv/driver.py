"""Proof-run driver: lowered C + contracts -> goto-cc -> goto-instrument --dfcc -> cbmc, in parallel.
Collects obligations from CBMC's own result list and writes evidence / violation reports.
See DESIGN.md 3.5 / 3.6."""
import json, os, re, subprocess, sys, time, shutil, resource, hashlib
from concurrent.futures import ThreadPoolExecutor

VERIF = os.path.dirname(os.path.dirname(os.path.abspath(__file__)))
# XV_OUT: where evidence/, replays/ and work/ go (default /verif itself); used only by the seed tools so that
# a run against a scratch worktree (XV_REPO) does not overwrite the evidence of /repo
OUT = os.environ.get('XV_OUT', VERIF)
REPO = os.environ.get('XV_REPO', '/repo')
NCPU = int(os.environ.get('XV_JOBS', str(os.cpu_count() or 8)))

BASE_CHECKS = ['--no-standard-checks', '--bounds-check', '--pointer-check', '--div-by-zero-check',
               '--pointer-primitive-check', '--pointer-overflow-check']
ARITH_ASSUMPTIONS = [
    'machine arithmetic: CBMC bit-vector semantics for the x86-64 LP64 data model (char signed, int 32, long 64)',
    'undefined-shift and signed-shl/signed-overflow checks are off: << on promoted small unsigned types and '
    'signed accumulators is treated as two\'s complement wrapping (GCC/Clang behaviour, C++20-defined); '
    'shift distances are checked where a contract states them',
]


class ToolTrouble(Exception):
    """extraction / compile / solver trouble: exit 2, never a violation"""


def limit(mem_gb):
    def f():
        resource.setrlimit(resource.RLIMIT_AS, (mem_gb << 30, mem_gb << 30))
        os.setsid()
    return f


def run(cmd, timeout, mem_gb=12, cwd=None):
    t0 = time.time()
    try:
        p = subprocess.run(cmd, stdout=subprocess.PIPE, stderr=subprocess.PIPE, timeout=timeout, cwd=cwd,
                           preexec_fn=limit(mem_gb))
        return p.returncode, p.stdout.decode(errors='replace'), p.stderr.decode(errors='replace'), time.time() - t0
    except subprocess.TimeoutExpired as e:
        return -9, (e.stdout or b'').decode(errors='replace'), 'TIMEOUT after %ss' % timeout, time.time() - t0


class Job:
    """one verifier run: `entry` harness, contract of `enforce` checked against its lowered body,
    callees in `replace` used through their contracts only"""

    def __init__(self, name, cfiles, entry, enforce=None, replace=(), loop_contracts=True, unwind=None,
                 flags=(), defines=(), timeout=600, kind='contract', backend='sat', prop=None, unit=None,
                 expect_fail=(), mem_gb=12, info=None, objbits=None, includes=(), pre_unwind=None, unwind_rules=(), split=1):
        self.split = split                  # check the obligations in this many groups, one solver process per group, in parallel
        self.pre_unwind = pre_unwind        # default bound for loops without loop contract, unwound BEFORE contract instrumentation
        self.unwind_rules = list(unwind_rules)   # [(regex on the loop's source line, bound)]
        self.name = name
        self.cfiles = list(cfiles)
        self.entry = entry
        self.enforce = enforce
        self.replace = list(replace)
        self.loop_contracts = loop_contracts
        self.unwind = unwind
        self.flags = list(flags)
        self.defines = list(defines)
        self.timeout = timeout
        self.kind = kind          # contract | lemma | bounded | negative
        self.backend = backend
        self.prop = prop
        self.unit = unit
        self.expect_fail = list(expect_fail)   # regexes of property names that MUST fail (canaries)
        self.mem_gb = mem_gb
        self.info = info or {}
        self.objbits = objbits
        self.includes = list(includes)


CANARY_RX = r'.*canary.*'


def classify(pname, desc):
    d = desc.lower()
    if 'canary' in d or 'canary' in pname:
        return 'canary'
    if 'loop_invariant_base' in pname or 'invariant before entry' in d:
        return 'loop_invariant_base'
    if 'loop_invariant_step' in pname or 'invariant is preserved' in d:
        return 'loop_invariant_step'
    if 'loop_decreases' in pname or 'decreases clause' in d or 'variant' in d:
        return 'loop_decreases'
    if 'loop_assigns' in pname:
        return 'loop_assigns'
    if 'postcondition' in pname or 'post-condition' in d:
        return 'postcondition'
    if 'precondition' in pname:
        return 'callee_precondition'
    if 'assigns' in pname or 'is assignable' in d:
        return 'assigns'
    if 'pointer' in pname or 'dereference' in d:
        return 'pointer'
    if 'bounds' in pname or 'array' in d and 'bound' in d:
        return 'bounds'
    if 'division' in pname or 'division by zero' in d:
        return 'div_by_zero'
    if 'overflow' in pname:
        return 'overflow'
    if re.search(r'\.unwind\.\d+$', pname) or 'unwinding assertion' in d:
        return 'unwinding'
    if 'loop_step_unwinding' in pname:
        return 'loop_step'
    if 'assertion' in pname:
        return 'assertion'
    return 'other'


def run_job(job, workdir):
    """returns dict(status=ok|violated|trouble, obligations=[...], failed=[...], time=..., cmd=..., log=...)"""
    wd = os.path.join(workdir, job.name)
    os.makedirs(wd, exist_ok=True)
    res = {'job': job.name, 'status': 'trouble', 'obligations': [], 'failed': [], 'canaries': [], 'time': 0.0,
           'solver_time': 0.0, 'log': '', 'kind': job.kind, 'enforce': job.enforce, 'backend': job.backend}
    a, b = os.path.join(wd, 'a.gb'), os.path.join(wd, 'b.gb')
    cmd1 = ['goto-cc', '-o', a, '--function', job.entry, '-I', os.path.join(VERIF, 'model'), '-I', os.path.join(VERIF, 'contracts'),
            '-I', workdir, '-DXV_CBMC'] + ['-I' + i for i in job.includes] + ['-D' + d for d in job.defines] + job.cfiles
    rc, out, err, t = run(cmd1, 300)
    res['time'] += t
    if rc != 0:
        res['log'] = 'goto-cc failed:\n' + (out + err)[-4000:]
        return res
    binf = a
    cmds = [' '.join(cmd1)]
    if job.pre_unwind is not None:
        rc, out, err, t = run(['goto-instrument', '--show-loops', a], 120)
        loops = re.findall(r'Loop (\S+):\n\s+file (\S+) line (\d+) function (\S+)', out)
        us = []
        src_cache = {}
        for lid, f, line, fn in loops:
            if fn.startswith('__CPROVER') or f.startswith('<'):
                continue
            if f not in src_cache:
                try:
                    src_cache[f] = open(f).read().split('\n')
                except OSError:
                    src_cache[f] = []
            text = src_cache[f][int(line) - 1] if int(line) - 1 < len(src_cache[f]) else ''
            if re.search(r'\bXV_LOOP_\w+', text):
                continue       # loop under loop contract
            bound = job.pre_unwind
            for rx, bnd in job.unwind_rules:
                if re.search(rx, text):
                    bound = bnd
                    break
            us.append('%s:%d' % (lid, bound))
        res['pre_unwound'] = us
        if us:
            a1 = os.path.join(wd, 'a1.gb')
            cmdu = ['goto-instrument', '--unwindset', ','.join(us), '--unwinding-assertions', a, a1]
            rc, out, err, t = run(cmdu, 600)
            res['time'] += t
            cmds.append(' '.join(cmdu))
            if rc != 0:
                res['log'] = 'goto-instrument --unwindset failed:\n' + (out + err)[-4000:]
                return res
            a = a1
            binf = a1
    if getattr(job, 'add_library', False):
        # link CBMC's C library models (ceilf, truncf, ...) before the contract instrumentation, which otherwise treats them as undefined
        al = os.path.join(jd, 'lib.gb') if 'jd' in dir() else a + '.lib.gb'
        cmdl = ['goto-instrument', '--add-library', a, al]
        rc, out, err, t = run(cmdl, 300)
        res['time'] += t
        cmds.append(' '.join(cmdl))
        if rc != 0:
            res['log'] = 'goto-instrument --add-library failed:\n' + (out + err)[-4000:]
            return res
        a = al
        binf = al
    if job.enforce or job.replace or job.loop_contracts:
        cmd2 = ['goto-instrument', '--dfcc', job.entry]
        if job.enforce:
            cmd2 += ['--enforce-contract', job.enforce]
        for r in job.replace:
            cmd2 += ['--replace-call-with-contract', r]
        if job.loop_contracts:
            cmd2 += ['--apply-loop-contracts']
        cmd2 += [a, b]
        rc, out, err, t = run(cmd2, 600)
        res['time'] += t
        cmds.append(' '.join(cmd2))
        if rc != 0:
            res['log'] = 'goto-instrument failed:\n' + (out + err)[-6000:]
            return res
        binf = b
    cmd3 = ['cbmc', binf, '--json-ui'] + BASE_CHECKS + job.flags
    if job.unwind is not None:
        cmd3 += ['--unwind', str(job.unwind), '--unwinding-assertions']
    if job.objbits:
        cmd3 += ['--object-bits', str(job.objbits)]
    if job.backend == 'cvc5':
        cmd3 += ['--cvc5']
    elif job.backend == 'z3':
        cmd3 += ['--z3']
    elif job.backend == 'kissat':
        cmd3 += ['--external-sat-solver', 'kissat']
    elif job.backend == 'cadical':
        cmd3 += ['--sat-solver', 'cadical']
    cmds.append(' '.join(cmd3))
    res['cmd'] = ' && '.join(cmds)
    results, errors, trouble = cbmc_results(cmd3, job, res)
    if trouble:
        return res
    for r in results:
        pn, desc, st = r.get('property', ''), r.get('description', ''), r.get('status', '')
        cls = classify(pn, desc)
        loc = r.get('sourceLocation', {})
        ob = {'id': pn, 'class': cls, 'description': desc, 'status': st,
              'where': '%s:%s' % (loc.get('function', ''), loc.get('line', ''))}
        if cls == 'canary' or any(re.fullmatch(rx, pn) or re.search(rx, desc) for rx in job.expect_fail):
            res['canaries'].append(ob)
            continue
        res['obligations'].append(ob)
        if st == 'UNKNOWN':
            res.setdefault('unknown', []).append(ob)
            continue
        if st != 'SUCCESS':
            if cls == 'unwinding' and not pn.startswith('__CPROVER_contracts'):
                res.setdefault('unwinding_failed', []).append(pn)
                continue
            res['failed'].append(ob)
    res['status'] = 'violated' if res['failed'] else 'ok'
    if res.get('unwinding_failed') and not res['failed']:
        # only the bound is exceeded and nothing else fails: the stated loop bound is too small (tool trouble, never a violation)
        res['log'] = 'unwinding assertion failed (%s): the stated loop bound is too small - tool trouble, not a violation' % res['unwinding_failed'][0]
        res['status'] = 'trouble'
        return res
    if res.get('unknown') and not res['failed']:
        res['status'] = 'trouble'
        res['log'] = 'cbmc left %d obligations undecided (UNKNOWN) without reporting a failure' % len(res['unknown'])
    res['binary'] = binf
    res['cbmc_cmd'] = cmd3
    return res


def parse_cbmc(out, err, rc):
    """-> (results list or None, error strings)"""
    try:
        msgs = json.loads(out)
    except Exception as e:
        return None, ['cbmc output not JSON (rc=%s): %s\n%s' % (rc, e, (out + err)[-3000:])]
    results, errors = None, []
    for m in msgs:
        if isinstance(m, dict):
            if 'result' in m:
                results = m['result']
            if m.get('messageType') == 'ERROR':
                errors.append(m.get('messageText', ''))
            if m.get('messageType') == 'WARNING' and 'ignoring' in m.get('messageText', ''):
                errors.append('quantifier ignored: ' + m.get('messageText', ''))
    return results, errors


def cbmc_results(cmd3, job, res):
    """run cbmc (optionally split into property groups run in parallel); fills res on trouble -> (results, errors, trouble?)"""
    groups = [None]
    if job.split > 1:
        rc, out, err, t = run(cmd3 + ['--show-properties'], 300, job.mem_gb)
        try:
            props = [p['name'] for m in json.loads(out) if isinstance(m, dict) and 'properties' in m for p in m['properties']]
        except Exception:
            props = []
        if len(props) >= job.split:
            groups = [props[i::job.split] for i in range(job.split)]
    def one(g):
        cmd = cmd3 + (sum([['--property', p] for p in g], []) if g else [])
        return run(cmd, job.timeout, job.mem_gb)
    if len(groups) == 1:
        outs = [one(groups[0])]
    else:
        with ThreadPoolExecutor(max_workers=len(groups)) as ex:
            outs = list(ex.map(one, groups))
    allres, allerr = [], []
    for rc, out, err, t in outs:
        res['time'] = max(res['time'], 0) + (t if len(outs) == 1 else 0)
        res['solver_time'] = max(res.get('solver_time', 0.0), t)
        if rc == -9:
            res['log'] = 'cbmc timeout after %ss' % job.timeout
            res['status'] = 'trouble'
            return None, None, True
        r, e = parse_cbmc(out, err, rc)
        allerr += e
        if r is None:
            res['log'] = 'cbmc gave no result list (rc=%s): %s' % (rc, '\n'.join(e)[-3000:] + err[-2000:])
            return None, None, True
        allres += r
    if len(outs) > 1:
        res['time'] += res['solver_time']
    if any(e.startswith('quantifier ignored') for e in allerr):
        res['log'] = '\n'.join(allerr)
        return None, None, True
    return allres, allerr, False


def trace_for(job, res, workdir, prop_id, timeout=600):
    """re-run cbmc on the instrumented binary for one failed property with --trace; returns (assignments, raw text)"""
    cmd = [c for c in res['cbmc_cmd']] + ['--trace', '--property', prop_id]
    rc, out, err, t = run(cmd, timeout, job.mem_gb)
    try:
        msgs = json.loads(out)
    except Exception:
        return None, out[-4000:]
    steps = []
    for m in msgs:
        if isinstance(m, dict) and 'result' in m:
            for r in m['result']:
                if r.get('property') == prop_id and 'trace' in r:
                    steps = r['trace']
    return steps, None


def trace_inputs(steps, names=None):
    """first assignment to each harness-level variable (full lhs text -> value data)"""
    vals = {}
    for s in steps or []:
        if s.get('stepType') != 'assignment':
            continue
        lhs = s.get('lhs')
        v = s.get('value', {})
        fn = (s.get('sourceLocation') or {}).get('function', '')
        if lhs is None:
            continue
        key = lhs
        val = v.get('data', v.get('name'))
        if names is not None and not any(lhs == nm or lhs.startswith(nm + '.') or lhs.startswith(nm + '[') for nm in names):
            continue
        vals.setdefault(key, []).append((val, v.get('binary'), fn))
    return vals


class TraceView:
    """what a CBMC counterexample says about the initial state: harness inputs (in_*), globals, the objects that
    __CPROVER_is_fresh created for pointer parameters (<param>_wrapper -> dynamic_object$k) and their field values"""

    def __init__(self, steps):
        self.first = {}
        self.last = {}
        self.bin = {}
        for s in steps or []:
            if s.get('stepType') != 'assignment':
                continue
            lhs = s.get('lhs')
            v = s.get('value', {})
            if lhs is None:
                continue
            self._put(lhs, v)

    def _put(self, lhs, v):
        val = v.get('data', v.get('name'))
        self.first.setdefault(lhs, val)
        self.last[lhs] = val
        if 'binary' in v:
            self.bin.setdefault(lhs, v['binary'])
        for m in v.get('members', []) or []:
            if isinstance(m, dict) and 'value' in m:
                self._put('%s.%s' % (lhs, m.get('name')), m['value'])
        for e in v.get('elements', []) or []:
            if isinstance(e, dict) and 'value' in e:
                self._put('%s[%s]' % (lhs, e.get('index')), e['value'])

    def num(self, name, default=None):
        v = self.first.get(name)
        if v is None:
            return default
        m = re.match(r'-?\d+', str(v))
        if m:
            return int(m.group(0))
        if str(v) in ('TRUE', 'FALSE'):
            return int(str(v) == 'TRUE')
        return default

    def bits(self, name, default=None):
        b = self.bin.get(name)
        return int(b, 2) if b else default

    def obj_of(self, param):
        for key in (param + '_wrapper', param):
            v = self.last.get(key) if key.endswith('_wrapper') else self.first.get(key)
            if v:
                m = re.search(r'(dynamic_object(\$\d+)?)', str(v))
                if m:
                    return m.group(1)
        return None

    def field(self, obj, path, default=None):
        return self.num('%s.%s' % (obj, path), default) if obj else default

    def elems(self, obj, n, default=0):
        return [self.num('%s[%dl]' % (obj, i), self.num('%s[%d]' % (obj, i), default)) for i in range(n)]


def run_jobs(jobs, workdir, ncpu=NCPU):
    os.makedirs(workdir, exist_ok=True)
    with ThreadPoolExecutor(max_workers=ncpu) as ex:
        return list(ex.map(lambda j: run_job(j, workdir), jobs))


def write_evidence(prop, tier, seed, results, jobs, wall, extra, assumptions, trusted_base, violations, level='proof'):
    obligations = 0
    discharged = 0
    per_class = {}
    per_backend = {}
    bounded = []
    funcs = []
    samples = []
    canaries_ok = 0
    canaries = 0
    for job, r in zip(jobs, results):
        if job.kind == 'bounded':
            bounded.append({'job': job.name, 'unwind': job.unwind, 'checks': len(r['obligations']),
                            'passed': len(r['obligations']) - len(r['failed'])})
            continue
        if job.kind == 'negative':
            continue
        n = len(r['obligations'])
        obligations += n
        discharged += len([o for o in r['obligations'] if o['status'] == 'SUCCESS'])
        for ob in r['obligations']:
            c = per_class.setdefault(ob['class'], [0, 0])
            c[0] += 1
            c[1] += ob['status'] == 'SUCCESS'
        pb = per_backend.setdefault(job.backend, {'jobs': 0, 'solver_s': 0.0})
        pb['jobs'] += 1
        pb['solver_s'] = round(pb['solver_s'] + r['solver_time'], 2)
        for c in r['canaries']:
            canaries += 1
            canaries_ok += c['status'] == 'FAILURE'
        if job.enforce:
            fi = dict(job.info)
            fi.update({'alias': job.enforce, 'obligations': n, 'time_s': round(r['time'], 2)})
            funcs.append(fi)
        if len(samples) < 6 and r['obligations']:
            pick = [o for o in r['obligations'] if o['class'] in ('postcondition', 'loop_invariant_step', 'assertion')] or r['obligations']
            samples.append({'job': job.name, 'obligation': pick[0]['id'], 'class': pick[0]['class'],
                            'description': pick[0]['description'], 'status': pick[0]['status']})
    cov = {
        'obligations': obligations,
        'discharged': discharged,
        'checker_cmd': (results[0].get('cmd') if results else '') or 'goto-cc | goto-instrument --dfcc | cbmc',
        'trusted_base': sorted(trusted_base),
        'obligations_by_class': {k: {'total': v[0], 'discharged': v[1]} for k, v in sorted(per_class.items())},
        'back_ends': per_backend,
        'functions_under_contract': funcs,
        'jobs': len([j for j in jobs if j.kind not in ('bounded', 'negative')]),
        'bounded': bounded,
        'vacuity': {'canaries': canaries, 'canaries_failing_as_required': canaries_ok},
        'samples': samples,
    }
    cov.update(extra or {})
    ev = {'property_id': prop, 'tier': tier, 'seed': seed, 'level': level, 'coverage': cov,
          'assumptions': assumptions, 'wall_s': round(wall, 2), 'violations': violations}
    os.makedirs(os.path.join(OUT, 'evidence'), exist_ok=True)
    with open(os.path.join(OUT, 'evidence', prop + '.json'), 'w') as f:
        json.dump(ev, f, indent=1)
    return ev
