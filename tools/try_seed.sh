#!/bin/bash
# try_seed.sh <patch> <property> [extra check args]: apply a seeded change to /repo, run the check, undo it straight afterwards
P=$1; ID=$2; shift 2
cd /repo && git apply "$P" || { echo "patch does not apply"; exit 3; }
cd /verif && ./check $ID "$@"; rc=$?
git -C /repo checkout -- .
echo "check exit code: $rc"
exit $rc
