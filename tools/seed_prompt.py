#!/usr/bin/env python3
"""Print the prompt given to an independent sub-agent that seeds a property-breaking change.
Usage: seed_prompt.py <property id> <worktree> <outdir> [first mutation number]   (only the property text is shared)"""
import json, sys
pid, wt, out = sys.argv[1:4]
k0 = int(sys.argv[4]) if len(sys.argv) > 4 else 1   # number of the first mutation (later batches continue the numbering)
p = [json.loads(l) for l in open('/verif/properties.jsonl') if json.loads(l)['id'] == pid][0]
print(f"""You are helping test a verification effort for the C++14 header-only library xtensor-stack/xtl.
You have your own scratch git worktree of the library at {wt} (work ONLY there and in {out}; never touch /repo or /verif, never read /verif).

Here is a semantic property of the library that should hold:

TITLE: {p['title']}
STATEMENT: {p['statement']}
QUANTIFIED OVER: {p['quantifier']['text']}
RELEVANT FILES: {', '.join(p['anchors']['files'])}

Your job: produce THREE independent, realistic source changes ("mutations") to the library headers under {wt}/include/xtl, each of which BREAKS this property while the library still compiles and the existing test-suite still passes completely. Each should be the kind of bug a maintainer could plausibly introduce in a refactor or 'optimisation' (not an obviously malicious edit), and each must need something specific to manifest - an unusual input, a boundary size, a multi-step sequence of operations, a particular configuration/template instantiation, or two cooperating sites that each look fine alone - i.e. NOT something ordinary use or the existing tests would expose at once. Make the three changes different in kind (different functions / different mechanisms). Keep each change small (a few lines).

For each mutation k in {k0}..{k0+2} deliver, in {out}/:
  - mut<k>.diff : `git diff` of that ONE change relative to the pristine worktree HEAD (apply-able with `git apply` at the repo root; headers only; do not edit tests),
  - demo<k>.cpp : a small stand-alone C++14 program (compile: g++ -std=c++14 -I<root>/include demo<k>.cpp) that exits 0 on the pristine tree and exits non-zero (printing what differs) with the mutation applied. Do not use -march flags or sanitizers unless the mutation needs them, and say so if it does.
  - a line in {out}/README.md: which function/site was changed, why it breaks the property, and what it needs in order to manifest.

How to build and run the existing tests (offline; doctest is installed): 
  cmake -G Ninja -S {wt} -B {wt}/_build -DBUILD_TESTS=ON -DCMAKE_BUILD_TYPE=RelWithDebInfo -DCMAKE_CXX_FLAGS=-Wno-error >/dev/null && cmake --build {wt}/_build -j4 && ctest --test-dir {wt}/_build -j4
(The whole suite builds in a few minutes; only the test files that include the header you changed get rebuilt afterwards. All tests must still pass with each mutation applied on its own.) Between mutations restore the tree with `git -C {wt} checkout -- .`. At the end leave the worktree pristine (git checkout -- .) and delete {wt}/_build to save disk.

You MUST actually verify, by running them, for every mutation: (a) it compiles and ALL existing tests pass with it, (b) the demo fails with it and passes without it. Report in your final answer, per mutation, one paragraph: the site, the trigger, and the commands you ran with their outcomes. Do not report a mutation you could not verify; if you can only get two, deliver two.""")
