#!/bin/bash
# seed_wt.sh <seed dir name, e.g. C07_m4> [extra check args]: run the property's check against a scratch worktree of /repo HEAD
# with the stored change applied (XV_REPO), output under a scratch directory (XV_OUT) - /repo and /verif/evidence are not touched,
# so several seeds can be tried at once.  Records the outcome in seeded/<seed>/meta.json (detected_by).
S=$1; shift
ID=${S%%_*}
WT=/tmp/xvwt_$S; OUTD=/tmp/xvout_$S
git -C /repo worktree remove --force $WT >/dev/null 2>&1; rm -rf $WT $OUTD
git -C /repo worktree add -f --detach $WT HEAD >/dev/null 2>&1 || { echo "worktree failed"; exit 3; }
git -C $WT apply /verif/seeded/$S/patch.diff || { echo "$S: patch does not apply"; git -C /repo worktree remove --force $WT; exit 3; }
mkdir -p $OUTD
cd /verif
XV_REPO=$WT XV_OUT=$OUTD ./check $ID "$@" > $OUTD/log 2>&1; rc=$?
python3 - "$S" "$rc" "$OUTD/log" "$*" <<'PY'
import sys, json, re
s, rc, log, args = sys.argv[1], int(sys.argv[2]), sys.argv[3], sys.argv[4]
out = open(log, errors='replace').read()
vio = [l for l in out.splitlines() if l.startswith('VIOLATION')]
p = '/verif/seeded/%s/meta.json' % s
meta = json.load(open(p))
meta['detected_by'] = {'check': './check %s %s' % (s.split('_')[0], args or '--tier quick'), 'exit_code': rc,
    'violation_lines': [re.sub(r'replay=\S*/replays/', 'replay=replays/', v) for v in vio][:12], 'detected': rc == 1,
    'tool_trouble': [l[:300] for l in out.splitlines() if l.startswith('TOOL-TROUBLE')][:3]}
json.dump(meta, open(p, 'w'), indent=1)
print('%s: exit=%d violations=%d %s' % (s, rc, len(vio), 'DETECTED' if rc == 1 else ('TOOL-TROUBLE' if rc == 2 else 'MISSED')))
for v in vio[:6]: print('   ', v)
PY
mkdir -p /verif/replays/seed_$S; cp -r $OUTD/replays/. /verif/replays/seed_$S/ 2>/dev/null; cp $OUTD/log /verif/replays/seed_$S/log
git -C /repo worktree remove --force $WT; rm -rf $OUTD
exit $rc
