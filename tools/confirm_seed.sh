#!/bin/bash
# confirm_seed.sh <property id> <agent output dir> : confirm every mutK.diff independently in a scratch worktree
# (compiles, whole existing suite passes, demo fails with / passes without) and store it as /verif/seeded/<id>_mK/
set -u
ID=$1; SRC=$2
WT=/tmp/wt_confirm_$ID
git -C /repo worktree add -f --detach $WT HEAD >/dev/null 2>&1
cmake -G Ninja -S $WT -B $WT/_build -DBUILD_TESTS=ON -DCMAKE_BUILD_TYPE=RelWithDebInfo -DCMAKE_CXX_FLAGS=-Wno-error >/dev/null 2>&1
for diff in $SRC/mut*.diff; do
  k=$(basename $diff .diff | sed 's/mut//')
  demo=$SRC/demo$k.cpp
  [ -f "$demo" ] || continue
  git -C $WT checkout -- . 
  g++ -std=c++14 -I$WT/include $demo -o /tmp/demo_${ID}_$k.clean 2>/tmp/demo_${ID}_$k.log && /tmp/demo_${ID}_$k.clean >/dev/null 2>&1; clean_rc=$?
  if ! git -C $WT apply $diff; then echo "$ID m$k: patch does not apply"; continue; fi
  cmake --build $WT/_build -j6 >/tmp/build_${ID}_$k.log 2>&1; build_rc=$?
  ctest --test-dir $WT/_build -j6 --timeout 900 >/tmp/ctest_${ID}_$k.log 2>&1; test_rc=$?
  tests=$(grep -E "tests passed|tests failed" /tmp/ctest_${ID}_$k.log | head -1)
  g++ -std=c++14 -I$WT/include $demo -o /tmp/demo_${ID}_$k.mut 2>>/tmp/demo_${ID}_$k.log && /tmp/demo_${ID}_$k.mut >/tmp/demo_${ID}_$k.out 2>&1; mut_rc=$?
  git -C $WT checkout -- .
  ok=no
  if [ $clean_rc -eq 0 ] && [ $build_rc -eq 0 ] && [ $test_rc -eq 0 ] && [ $mut_rc -ne 0 ]; then ok=yes; fi
  echo "$ID m$k: clean_demo_rc=$clean_rc build_rc=$build_rc ctest_rc=$test_rc ($tests) mutated_demo_rc=$mut_rc confirmed=$ok"
  if [ $ok = yes ]; then
    D=/verif/seeded/${ID}_m$k; mkdir -p $D
    cp $diff $D/patch.diff; cp $demo $D/demo.cpp
    needs=$(grep -iE "^(\*\*|#+|-|[0-9]+\.)? *.*(mut(ation)? ?$k|demo$k)" $SRC/README.md | head -3 | tr '\n' ' ' | cut -c1-900)
    python3 - "$ID" "$k" "$D" "$SRC" "$tests" "$mut_rc" <<'PY'
import json, sys, re
pid, k, d, src, tests, mut_rc = sys.argv[1:7]
readme = open(src + '/README.md').read() if __import__('os').path.exists(src + '/README.md') else ''
json.dump({'property': pid, 'mutation': int(k), 'origin': 'independent sub-agent given only the property text and a scratch worktree',
  'what_it_needs_to_manifest': 'see description', 'description_from_author': readme[:6000],
  'confirmed_by': 'tools/confirm_seed.sh in a scratch worktree of /repo HEAD: patch applied alone; cmake --build of the whole suite rc=0; ctest: %s; demo.cpp (g++ -std=c++14) exits 0 on the pristine tree and %s with the patch' % (tests.strip(), mut_rc),
  'detected_by': None}, open(d + '/meta.json', 'w'), indent=1)
PY
  fi
  rm -f /tmp/demo_${ID}_$k.clean /tmp/demo_${ID}_$k.mut
done
git -C /repo worktree remove --force $WT
