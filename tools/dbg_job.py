#!/usr/bin/env python3
"""dbg_job.py <jobdir> [property-id] : list failing obligations of an instrumented binary; with a property id print its trace (filtered)"""
import sys, subprocess, json, re
jd = sys.argv[1]
prop = sys.argv[2] if len(sys.argv) > 2 else None
flags = ['--no-standard-checks', '--bounds-check', '--pointer-check', '--div-by-zero-check', '--pointer-primitive-check', '--pointer-overflow-check']
cmd = ['cbmc', jd + '/b.gb', '--json-ui'] + flags + (['--trace', '--property', prop] if prop else [])
out = subprocess.run(cmd, stdout=subprocess.PIPE, stderr=subprocess.PIPE, timeout=int(sys.argv[3]) if len(sys.argv) > 3 else 900).stdout
for m in json.loads(out):
    if 'result' in m:
        for r in m['result']:
            if r['status'] != 'SUCCESS' and 'canary' not in r['description']:
                print(r['status'], r['property'], '|', r['description'][:110], '| line', r.get('sourceLocation', {}).get('line'))
            if prop and r['property'] == prop:
                seen = {}
                for s in r.get('trace', []):
                    if s.get('stepType') == 'assignment' and s.get('lhs'):
                        l = s['lhs']
                        if re.match(r'(__CPROVER|tmp_|return_value|goto_symex|may_fail|write_set|ptr_pred|contract_|allow_|assume_|assert_|max_elems|malloc_|object_bits|nof_|set$|elem$|car|idx$|__ptr|__car|target|size$)', l):
                            continue
                        v = s['value'].get('data', s['value'].get('name'))
                        print('   %-50s = %s   [%s:%s]' % (l, v, s.get('sourceLocation', {}).get('function', ''), s.get('sourceLocation', {}).get('line', '')))
