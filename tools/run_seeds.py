#!/usr/bin/env python3
"""run_seeds.py <property id> [tier]: apply each confirmed seeded change to /repo, run the property's check, undo, record outcome in meta.json"""
import sys, os, json, subprocess, glob, re
pid = sys.argv[1]
tier = sys.argv[2] if len(sys.argv) > 2 else 'quick'
for d in sorted(glob.glob('/verif/seeded/%s_m*' % pid)):
    patch = os.path.join(d, 'patch.diff')
    meta = json.load(open(os.path.join(d, 'meta.json')))
    if subprocess.run(['git', '-C', '/repo', 'apply', patch]).returncode != 0:
        print(d, 'patch does not apply'); continue
    try:
        p = subprocess.run(['./check', pid, '--tier', tier], cwd='/verif', stdout=subprocess.PIPE, stderr=subprocess.STDOUT)
    finally:
        subprocess.run(['git', '-C', '/repo', 'checkout', '--', '.'])
    out = p.stdout.decode(errors='replace')
    vio = [l for l in out.splitlines() if l.startswith('VIOLATION')]
    meta['detected_by'] = {'check': './check %s --tier %s' % (pid, tier), 'exit_code': p.returncode,
                           'violation_lines': [re.sub(r'/verif/replays/', 'replays/', v) for v in vio][:12],
                           'detected': p.returncode == 1,
                           'tool_trouble': [l for l in out.splitlines() if l.startswith('TOOL-TROUBLE')][:3]}
    json.dump(meta, open(os.path.join(d, 'meta.json'), 'w'), indent=1)
    print('%s: exit=%d violations=%d %s' % (os.path.basename(d), p.returncode, len(vio), 'DETECTED' if p.returncode == 1 else 'MISSED'))
# leave the evidence file of the property as written by a run on the unchanged tree
subprocess.run(['./check', pid, '--tier', 'quick'], cwd='/verif', stdout=subprocess.DEVNULL)
