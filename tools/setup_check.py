#!/usr/bin/env python3
"""setup: nothing is built ahead of time; verify the pre-installed tools are present."""
import shutil, sys
missing = [t for t in ('clang++', 'g++', 'gcc', 'goto-cc', 'goto-instrument', 'cbmc', 'python3') if shutil.which(t) is None]
if missing:
    print('missing tools:', missing); sys.exit(1)
print('setup ok')
