#!/usr/bin/env python3
"""Regenerates MANIFEST.json from the table below (kept valid at all times)."""
import json, os
V = os.path.dirname(os.path.dirname(os.path.abspath(__file__)))
PROOF_NOTE = ('Trusted: clang 14 front end (template instantiation, overload resolution, implicit conversions as dumped), the xtl2c lowering '
              'rules of DESIGN.md 3.2 (re-run from /repo on every check), CBMC 6.11 + its SAT back end, the C standard-library model in '
              '/verif/model (listed per run in the evidence), x86-64 LP64 machine arithmetic with wrapping shifts. ')
CHECKS = {
 'C15': dict(
   text='Every instantiated cmp_* function (8x8 integer type pairs quick, 11x11 thorough, x 6 functions) is lowered from the header on every run and '
        'its contract "result == comparison of the arguments as __int128" is discharged by CBMC over the full argument domain (loop-free, bit-precise, '
        'no bound); cmp_* callees are used through their contracts only; a lemma per type pair proves trichotomy and the derived comparisons from the six contracts.',
   note=PROOF_NOTE + 'constexpr usability is a compile-time fact shown by constexpr variable definitions in the instantiation unit (not an obligation).',
   technique='CBMC code contracts (DFCC) on mechanically lowered instantiations; full-domain SAT', design='4 C15'),
 'C16': dict(
   text='Every constructor, observer, element accessor and sub-view function of tcb::span<int> and tcb::span<int,4> (incl. the static first<2>/last<2>/subspan<1,2>/subspan<1>) is lowered in '
        'three configurations (no checking, throwing contract checks, throwing checks requested explicitly under NDEBUG) and proved against a contract over the view (ptr,size): results are pointer-identical to ptr+offset inside a fresh parent object '
        'of exactly size elements, sizes are exact, at() throws exactly for idx>=size(), and in checked mode an exception is raised exactly when the request is out of range, '
        'with offset/count/index ranging over all of size_t (loop-free, complete).',
   note=PROOF_NOTE + 'Parent size is bounded by 65536 elements (verifier object size); element type int; reverse_iterator modelled as a struct holding the base pointer; exception message text dropped.',
   technique='CBMC code contracts (DFCC) on mechanically lowered instantiations; full-domain SAT', design='4 C16'),
 'C13': dict(
   text='base64encode and base64decode are lowered from the header on every run and proved against RFC 4648 spec terms with inductive loop contracts for inputs of symbolic length up to 10^6 bytes over the full 0..255 byte range: '
        'encode: length 4*ceil(n/3), character g = alphabet(sextet g) or padding; decode: stops exactly at the first non-alphabet byte (or the end), returns floor(6p/8) bytes, each equal to the sextet-stream byte, '
        'with every table index and input read inside bounds (pointer/bounds obligations); a separate spec-level lemma proves dec(enc(s)) == s for all s.',
   note=PROOF_NOTE + 'std::string storage model; ghost let-bindings as total definitions; constant-trip loops unwound with unwinding assertions (complete); round trip = two contracts + lemma, composed by a meta-argument.',
   technique='CBMC code contracts with loop invariants (DFCC) on mechanically lowered code + spec lemma', design='4 C13'),
 'C14': dict(
   text='murmur2_x86_impl and murmur_hash<8> are lowered on every run and proved, with inductive loop contracts over buffers of symbolic length (<= 10^6) at an unconstrained address, equal to reference MurmurHash2 / MurmurHash64A '
        '(transcribed as ghost code running in lock step); the buffer is a fresh object of exactly length bytes, so any read outside [buffer, buffer+length) fails a pointer obligation; the frame is empty; '
        'hash_bytes, murmur2_x86 and murmur2_x64 are proved against the callee contracts to pass (buffer, length, seed) through unchanged.',
   note=PROOF_NOTE + 'Unsigned multiplication is abstracted as an uninterpreted function (sound for the equality proved); x86 unaligned little-endian loads; std::hash<xbasic_fixed_string> not yet under contract (listed in evidence not_reached).',
   technique='CBMC code contracts with loop invariants and ghost reference code (DFCC) on mechanically lowered code', design='4 C14'),
 'C03': dict(
   text='xdynamic_bitset_base for the owning bitset and for the view over caller memory, xdynamic_bitset (constructors, resize, push/pop_back, clear, assign, copy), the view constructor and xbitset_reference are lowered on every run '
        'and every operation is proved against the abstract bit sequence (ghost bit index, so every bit) with inductive loop contracts for symbolic sizes up to 10^6 blocks: wf (block count, zero tail, exact-size fresh block array) is preserved, '
        'set/reset/flip, <<= and >>= for every amount in size_t, &= |= ^=, all/any/none/count/==, operator[] / at() (throws exactly for i >= size()) and the size-changing operations realise std::vector<bool> semantics; '
        'the frame is the block array only; the free operators | & ^ ~ (through one-line wrappers, library code inlined) return an owning bitset with the combined bits and write nothing visible to the caller - a view operand\'s memory in particular. Quick: 8-bit blocks; thorough: 8/16/32/64.',
   note=PROOF_NOTE + 'std::vector/std::fill model is C with loop contracts discharged in place; views lowered with NDEBUG; preconditions as for std::vector<bool>; operator<< / >> returning temporaries and iterators not under this check (listed in evidence).',
   technique='CBMC code contracts with loop invariants (DFCC) on mechanically lowered code; ghost index / ghost witness', design='4 C03'),
 'C08': dict(
   text='The integer kernels of half (float/double->half, half->float/double, operator+ - * /, fma, sqrt, the six comparisons, classification, fabs/copysign/negation, hash) are lowered on every run and proved equal to '
        'IEEE 754 binary16 spec functions (round-to-nearest-even with overflow to infinity and gradual underflow, exact integer arithmetic) over their FULL input domains by bit-precise SAT: e.g. operator+ over all 2^32 operand pairs in one query, '
        'float->half over all 2^32 floats; signed zeros, subnormals, infinities and NaN cases included.',
   note=PROOF_NOTE + 'Multiplication/division/fma use uninterpreted * / % with stated range axioms; quick tier proves fma on the special-value slice only (thorough: all 2^48 triples); F16C path by assumption; NaN payloads unspecified.',
   technique='CBMC code contracts (DFCC) on mechanically lowered code; full-domain bit-precise SAT against IEEE spec functions', design='4 C08'),
 'C01': dict(
   text='xbasic_fixed_string<char,N> (packed-size layout N=7 and N=255, size-field layout N=256, strlen-sized layout N=7, throwing policy) is lowered on every run; the storage classes (size/set_size/adjust_size), the error policy, the counted core of the API '
        '(assign, push/pop_back, append, resize, insert, erase, replace, copy, clear, compare, at/[]/front/back, the character search overloads with explicit and with DEFAULTED positions) and, for the small packed configuration, the forwarding overloads '
        '(sources given as another fixed string, as a std::string, as a NUL-terminated C string of up to 4N characters, as an iterator range; positions given as iterators incl. end() and empty ranges; +=, resize(n), substr, swap, compare with std::string) are proved against the std::basic_string specification '
        'written over the abstract view (len, chars, terminator) from ANY wf state - every length 0..N including exactly N, stale bytes after the terminator - with a ghost character index covering the whole N+1 buffer.',
   note=PROOF_NOTE + 'char only; silent policy, initializer_list overloads, C-string arguments longer than 4N (the strlen loop of the model is unwound to that bound), operator+, stream operators and counted-needle searches are not under contract (evidence.not_reached); copy-loop functions and the forwarding overloads at N=255/256 only in the thorough tier. One recorded finding: resize(count) pads with a blank, std::string with CharT().',
   technique='CBMC code contracts (DFCC) on mechanically lowered code; loop contracts in the char_traits model; ghost index', design='4 C01'),
 'C02': dict(
   text='Same lowered code and contracts as C01, claimed for their exceptional and safety parts: every operation throws length_error exactly when the result would exceed N and out_of_range exactly when a position exceeds the relevant length, '
        'and after either exception every one of the N+1 buffer elements and the length field are unchanged (ghost index over the whole buffer); argument ranges are fresh objects of exactly count elements (over-reads fail a pointer obligation), '
        'the frame of every operation is the string object itself.',
   note=PROOF_NOTE + 'Same reach as C01 (char; packed N=7/255, size-field N=256, strlen-sized N=7; throwing policy; forwarding overloads incl. the std::string ones on the small packed configuration). A stray write of the correct value into m_size is not distinguishable (stated in DESIGN.md).',
   technique='CBMC code contracts (DFCC): exceptional postconditions, frame and pointer obligations on mechanically lowered code', design='4 C02'),
 'C04': dict(
   text='Every operator, comparison, compound assignment, lifted <cmath> function, select and value_or overload of xoptional and xmasked_value that clang instantiates for the generated shape matrix '
        '(each argument position optional/masked or plain; value and reference closures; int flags for equality; double operands for the ordering comparisons, two mixed float/double fma shapes) - 352 overloads - is lowered and proved against a GENERATED contract: '
        'presence(result) == AND of the operand presences, value == the same operation on the underlying values, a missing result leaves a compound-assignment target untouched, == / != / select / value_or as stated; '
        'integer / % /= %= carry the division-by-zero obligation with no precondition on a missing operand, which proves non-evaluation. Loop-free: complete.',
   note=PROOF_NOTE + 'Operand types int and double; machine * / % and <cmath> functions are uninterpreted functions shared by code and spec; non-evaluation of non-trapping operations is not observable with these types.',
   technique='CBMC code contracts (DFCC) with generated contracts per instantiated overload; full-domain SAT', design='4 C04'),
 'C12': dict(
   text='xbitset_iterator<xdynamic_bitset<uint8_t>>, xstepping_iterator<int*> (steps 1 and 3; thorough adds 2 and 7) and the paired iterators of the optional / complex vectors (xoptional_iterator, xcomplex_iterator; representation invariant: both sub-iterators at one position), including the friend operators that xbidirectional_iterator_base / xrandom_access_iterator_base generate for them '
        '(+, n+it, -, postfix ++/--, [], <=, >=, >, !=): every function carries a contract over the abstract position (bit index / element offset); the laws of the property - (it+n)-it == n, (it+n)-n == it, n+it == it+n, '
        'postfix returns the old position, a<b iff b-a>0, the derived comparisons agree with < and ==, begin..end visits each bit exactly once in order - are lemma harnesses proved over the contracts alone.',
   note=PROOF_NOTE + 'Four iterator kinds, fixed element types; key/value map iterators, the size_t extension base and operator[] of xoptional_iterator are not reached; positions unbounded within a container of up to 2^40 bits / 10^6 ints. it[n] == *(it+n) is carried by the two contracts, not by a lemma harness; stepping-iterator traversal lemma not closed.',
   technique='CBMC code contracts (DFCC) on mechanically lowered iterator classes and CRTP friend operators; law lemmas over contracts (replace-call-with-contract)', design='4 C12'),
 'C20': dict(
   text='executable_path(), prefix_path() (Linux branch) and endianness() are lowered and proved against contracts over a ghost install path of ANY length 1..PATH_MAX and any non-NUL bytes: '
        'readlink is a contract-modelled external (min(len, bufsz) bytes, no terminator, frame = exactly those bytes); executable_path returns exactly the path with every buffer access inside the buffer and the C string provably terminated; '
        'prefix_path returns path[0 .. second-to-last separator] for every position of the separators (std::string operations through sampled contracts with prophecy ghosts); endianness() returns the byte order of the verified platform model.',
   note=PROOF_NOTE + 'std::string is an abstract-value model (trusted); quantified facts are sampled at ghost positions (sound: every real execution is covered, argument in DESIGN.md 3.5). Other platforms\' branches are not compiled here.',
   technique='CBMC code contracts (DFCC) on mechanically lowered xsystem.hpp/xplatform.hpp; modelled readlink and std::string with sampled contracts and prophecy ghosts; native replay installs the binary at long / unusual paths under ASan', design='4 C20'),
 'C11': dict(
   text='xoptional_vector / xoptional_array (value storage + bitset of flags) and xcomplex_vector (real + imaginary vectors): every constructor (incl. the defaulted ones, through a wrapper), the three resize overloads, '
        'at / operator[] / front / back (const and non-const), size, empty, == and != carry contracts over the abstract sequence of pairs: the LOCKSTEP invariant (both storages well formed, length == size()) is required and re-established, '
        'element g after the operation is the stated pair for an arbitrary g, proxies designate exactly (&values[i], flag bit i), at() throws exactly for i >= size(), == is true exactly when sizes, values and flags match (ghost witnesses for inequality).',
   note=PROOF_NOTE + 'int elements, uint8_t flag blocks; sizes up to 10^6 (unbounded in the proof, loop contracts in the vector model). Bitset members enter through their C03 contracts. The primitives of the vector variants\' iterators (xoptional_iterator, xcomplex_iterator) are under contract (both sub-iterators move in lockstep, dereference designates (values[k], flag k)); begin()/end() and the const / reverse / array instantiations are exercised by the native replay only.',
   technique='CBMC code contracts (DFCC) on mechanically lowered sequence classes; callee contracts of C03 reused (replace-call-with-contract); native replay of operation histories under ASan', design='4 C11'),
 'C10': dict(
   text='xcomplex<float> operators through one wrapper per overload (the library code is inlined into each proof): + - * / unary minus == != on value closures, reference closures (same results; compound assignment writes the referents and never rebinds), '
        'mixed real/complex forms in both orders (s*z, z*s, z/s, s/z, s+z, s-z; s/z also in ieee mode); naive mode equals the textbook formulas term for term; ieee mode: C99 Annex G clauses for * and / stated literally with CBMC\'s bit-precise float semantics for EVERY operand (all 2^128 operand combinations), '
        'plus the scaling clause for divisors +-2^k of any normal magnitude. One recorded finding (finite / infinity with an overflowing dividend).',
   note=PROOF_NOTE + 'float only; "within a few units of rounding" is decided as equality with the float-evaluated textbook formula (no error analysis); the formula contracts use uninterpreted float arithmetic (commutative + and *). Loop-free except the 24-step subnormal loop of the logb model (unwinding assertions).',
   technique='CBMC code contracts (DFCC) with bit-precise IEEE-754 semantics for the Annex G clauses and uninterpreted float arithmetic for the formula contracts; native replay on counterexample operands and a special-value grid', design='4 C10'),
 'C07': dict(
   text='closure() / const_closure() for T&, const T&, T&&, const T&& sources, xclosure_wrapper operations (assign value, assign closure, copy, swap member/free, &, get, conversion, ==), optional(x, flag) over lvalues and rvalues with assignment and conversion, '
        'xbitset_reference assignment, forward_sequence of same-type lvalues, converting construction from an rvalue optional of references with an instrumented payload, wrappers over the explicitly named traits closure_type_t / const_closure_type_t for T&, const T&, T&& sources, get() on rvalue closures, the free value() / has_value() on temporary optionals of references, closure_pointer / const_closure_pointer: 43 wrapper functions, each with a contract stating pointer identity with the original object '
        '(aliasing, no copy), independence of owned copies, write-through without rebinding, exchange of referent values, and that referents not owned by the source are not moved from.',
   note=PROOF_NOTE + 'Loop-free: complete for the instantiated wrapper kinds and categories. Lifetimes are not modelled (owning = value member). xproxy_wrapper, move-only payloads and the type-level identities not instantiated by a wrapper are not reached.',
   technique='CBMC code contracts (DFCC) on mechanically lowered closure / optional / bitset-reference code: references become pointers, aliasing is pointer equality in the contract; native replay with a copy-counting payload under ASan', design='4 C07'),
 'C09': dict(
   text='PARTIAL: the half functions that the property requires to agree exactly with the float functions - ceil floor trunc round rint nearbyint lround lrint frexp ldexp scalbn scalbln modf ilogb logb - and nextafter, fdim, fmax, fmin '
        'carry contracts against the float function applied to the exact value of the argument and converted back by the IEEE spec conversion (C08 spec functions), for all 2^16 arguments / 2^32 pairs / every exponent, with Annex F special cases. '
        'The correctly-rounded / 1-ULP transcendental functions are NOT decided (no real-valued reference a contract can state): see not_reached.',
   note=PROOF_NOTE + 'Partial claim (19 of the ~55 functions the property names). Round-to-nearest mode only; exception flags not modelled. The transcendental kernels are outside what a contract on this verifier can specify; an enumeration against an extended-precision reference would be a different technique.',
   technique='CBMC code contracts (DFCC), full-domain symbolic inputs, bit-precise float reference functions from the CBMC library; native replay enumerates all 2^16 arguments against libm', design='4 C09'),
}
NA = {
 'C05': 'variant lifetimes under exceptions, placement-new into a recursive union and visitation tables built from lambdas: no C++ exception/lifetime semantics in CBMC and no faithful mechanical lowering; a hand-written model would be a different technique (DESIGN.md 6)',
 'C06': 'xtl::any: hand-written vtables of function pointers, new/delete/placement-new, typeid and strong exception guarantee live in the part of C++ neither the verifier nor the lowering covers (DESIGN.md 6)',
 'C17': 'dispatch through dynamic_cast/typeid/type_index/virtual calls/std::map/std::function: no contract on a lowered C function can state "the dynamic type of the argument" (DESIGN.md 6)',
 'C18': 'purely compile-time metafunctions: there is no function body to put a contract on; the deciding engine would be the C++ compiler over generated instantiations (DESIGN.md 6)',
 'C19': 'property of the build matrix (compilers x standards x flags x translation units); nothing to put a contract on (DESIGN.md 6)',
}
ALL = ['C%02d' % i for i in range(1, 21)]
PENDING = 'contract-based check designed in DESIGN.md section 4 but not built yet in this tree; not claimed until its check exists'
def main():
    checks = []
    for pid, c in CHECKS.items():
        checks.append({
          'property_id': pid,
          'quick_cmd': './check %s --tier quick' % pid,
          'thorough_cmd': './check %s --tier thorough' % pid,
          'evidence_file': 'evidence/%s.json' % pid,
          'engine': 'xv',
          'level_claimed': {'category': 'proof', 'text': c['text'], 'design_ref': 'DESIGN.md section ' + c['design']},
          'level_note': c['note'],
          'technique': c['technique'],
        })
    na = [{'property_id': p, 'reason': NA.get(p, PENDING)} for p in ALL if p not in CHECKS]
    m = {
      'version': 1,
      'setup_cmd': 'python3 tools/setup_check.py',
      'hooks': {'guard': 'XTL_VERIF',
                'enable': 'none needed: contracts live in /verif/contracts (or are generated) and are attached to C code lowered from /repo\'s working tree on every run; no source hooks',
                'baseline_off_cmd': 'cmake -G Ninja -S /repo -B /repo/_build -DBUILD_TESTS=ON -DCMAKE_BUILD_TYPE=RelWithDebInfo -DCMAKE_CXX_FLAGS=-Wno-error && cmake --build /repo/_build && ctest --test-dir /repo/_build -j8 --timeout 900',
                'source_commits': [], 'add_only': True},
      'engines': [{'name': 'xv', 'path': 'xv/', 'serves_properties': sorted(CHECKS),
                   'kind_free_text': 'clang JSON AST -> C lowering (xtl2c) + CBMC 6.11 code contracts (goto-cc, goto-instrument --dfcc, cbmc), Python driver'}],
      'checks': checks,
      'not_applicable': na,
      'notes': 'exit codes of ./check: 0 held, 1 VIOLATION line(s) printed, 2 tool trouble (extraction/compile/solver), never reported as a violation',
    }
    json.dump(m, open(os.path.join(V, 'MANIFEST.json'), 'w'), indent=1)
    try:
        import jsonschema
    except ImportError:
        print("manifest written (jsonschema not available in this python; validate with python3-vt)"); return
    jsonschema.validate(m, json.load(open('/root/.vp/MANIFEST.schema.json')))
    for pid in CHECKS:
        p = os.path.join(V, 'evidence', pid + '.json')
        if os.path.exists(p):
            jsonschema.validate(json.load(open(p)), json.load(open('/root/.vp/EVIDENCE.schema.json')))
    print('manifest ok:', sorted(CHECKS))
main()
