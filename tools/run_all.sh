#!/bin/bash
# runs every claimed check (quick tier unless $1 given) on /repo's current tree, one after the other; prints one line per check
cd "$(dirname "$0")/.."
tier=${1:-quick}
rc_all=0
for id in $(python3 -c "import json;print(' '.join(c['property_id'] for c in json.load(open('MANIFEST.json'))['checks']))"); do
  s=$(date +%s)
  out=$(./check $id --tier $tier 2>&1); rc=$?
  e=$(date +%s)
  echo "$id rc=$rc $((e-s))s $(echo "$out" | grep -c '^VIOLATION') violation-lines :: $(echo "$out" | tail -1)"
  [ $rc -ne 0 ] && rc_all=1
done
exit $rc_all
