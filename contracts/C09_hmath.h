
/* ---------------------------------------------------------------------------------------------------------------
   C09 contracts (the exactly-specified half functions).  Reference = the float function applied to the exact float value of
   the half argument (xh_value_f, C08), converted back with the IEEE spec conversion xh_spec_from_float_bits (C08); CBMC's
   library gives ceilf/floorf/truncf/roundf/nearbyintf/lroundf/lrintf their IEEE meaning (round-to-nearest-even mode).
   NaN -> NaN, infinities and signed zeros as C99 Annex F.  Integer-exponent functions are specified on (M, E) = exact
   significand/exponent of the argument (value = M * 2^E). */
#define XH_ARG (arg.data_ & 0xFFFFu)
#define XH_VALX(h) (XH_ISINF(h) ? XH_INFV(h) : xh_value_f(h))
#define XH_OF_FLOAT(f) xh_spec_from_float_bits(xh_fbits(f))
/* round-to-integral family: agrees with the float function on every non-NaN argument (signed zero included: bit equality) */
#define XH_RINT_LIKE(FN) __CPROVER_ensures(XH_ISNAN(XH_ARG) ? XH_ISNAN(RVD) : (RVD & 0xFFFFu) == XH_OF_FLOAT(FN(XH_VALX(XH_ARG)))) __CPROVER_assigns()
#define XV_CONTRACT_half_float__ceil__half XH_RINT_LIKE(ceilf)
#define XV_CONTRACT_half_float__floor__half XH_RINT_LIKE(floorf)
#define XV_CONTRACT_half_float__trunc__half XH_RINT_LIKE(truncf)
#define XV_CONTRACT_half_float__round__half XH_RINT_LIKE(roundf)
#define XV_CONTRACT_half_float__rint__half XH_RINT_LIKE(nearbyintf)
#define XV_CONTRACT_half_float__nearbyint__half XH_RINT_LIKE(nearbyintf)
/* lround / lrint: defined by C for finite arguments (every finite half fits in long) */
#define XV_CONTRACT_half_float__lround__half __CPROVER_ensures(XH_FINITE(XH_ARG) ==> RV == lroundf(xh_value_f(XH_ARG))) __CPROVER_assigns()
#define XV_CONTRACT_half_float__lrint__half __CPROVER_ensures(XH_FINITE(XH_ARG) ==> RV == lrintf(xh_value_f(XH_ARG))) __CPROVER_assigns()

/* ilogb / logb: floor(log2 |x|) = msb(M) + E for finite non-zero x */
#define XH_ILOGB(h) (xh_msb(XH_M(h)) + XH_E(h))
#define XV_CONTRACT_half_float__ilogb__half __CPROVER_ensures((XH_FINITE(XH_ARG) && !XH_ISZERO(XH_ARG)) ==> RV == XH_ILOGB(XH_ARG)) \
  __CPROVER_ensures(XH_ISZERO(XH_ARG) ==> RV == (-2147483647 - 1)) __CPROVER_ensures(XH_ISINF(XH_ARG) ==> RV == 2147483647) __CPROVER_assigns()
#define XV_CONTRACT_half_float__logb__half __CPROVER_ensures((XH_FINITE(XH_ARG) && !XH_ISZERO(XH_ARG)) ==> (RVD & 0xFFFFu) == XH_OF_FLOAT((float)XH_ILOGB(XH_ARG))) \
  __CPROVER_ensures(XH_ISZERO(XH_ARG) ==> (RVD & 0xFFFFu) == 0xFC00u) __CPROVER_ensures(XH_ISINF(XH_ARG) ==> (RVD & 0xFFFFu) == 0x7C00u) __CPROVER_ensures(XH_ISNAN(XH_ARG) ==> XH_ISNAN(RVD)) __CPROVER_assigns()
/* frexp: x = r * 2^e with |r| in [0.5, 1) exactly; zero / infinity / NaN returned unchanged (NaN quieted) */
#define XV_CONTRACT_half_float__frexp__half_pi __CPROVER_requires(__CPROVER_is_fresh(exp, sizeof(int))) \
  __CPROVER_ensures((XH_FINITE(XH_ARG) && !XH_ISZERO(XH_ARG)) ==> (*exp == XH_ILOGB(XH_ARG) + 1 && XH_SIGN(RVD) == XH_SIGN(XH_ARG) && XH_EXP(RVD) == 14 \
                     && xh_value_f(RVD & 0xFFFFu) * xh_pow2f(*exp) == xh_value_f(XH_ARG))) \
  __CPROVER_ensures((XH_ISZERO(XH_ARG) || XH_ISINF(XH_ARG)) ==> (RVD & 0xFFFFu) == XH_ARG) __CPROVER_ensures(XH_ISZERO(XH_ARG) ==> *exp == 0) __CPROVER_ensures(XH_ISNAN(XH_ARG) ==> XH_ISNAN(RVD)) __CPROVER_assigns(*exp)
/* scalbln / scalbn / ldexp: x * 2^n correctly rounded once = xh_round(sign, M, E + n) (n clamped: beyond +-64 the result is already inf / 0) */
#define XH_CLAMP(n) ((n) > 64 ? 64 : (n) < -64 ? -64 : (int)(n))
#define XH_SCALB_POST(n) __CPROVER_ensures((XH_FINITE(XH_ARG) && !XH_ISZERO(XH_ARG)) ==> (RVD & 0xFFFFu) == xh_round(XH_SIGN(XH_ARG), XH_M(XH_ARG), XH_E(XH_ARG) + XH_CLAMP(n), 0)) \
  __CPROVER_ensures((XH_ISZERO(XH_ARG) || XH_ISINF(XH_ARG)) ==> (RVD & 0xFFFFu) == XH_ARG) __CPROVER_ensures(XH_ISNAN(XH_ARG) ==> XH_ISNAN(RVD)) __CPROVER_assigns()
#define XV_CONTRACT_half_float__scalbln__half_l XH_SCALB_POST(exp)
#define XV_CONTRACT_half_float__scalbn__half_i XH_SCALB_POST(exp)
#define XV_CONTRACT_half_float__ldexp__half_i XH_SCALB_POST(exp)
/* modf: integral part = trunc(x), fractional part = x - trunc(x) exactly, both with the sign of x; inf -> (inf, +-0) */
#define XV_CONTRACT_half_float__modf__half_phalf __CPROVER_requires(__CPROVER_is_fresh(iptr, sizeof(*iptr))) \
  __CPROVER_ensures(XH_FINITE(XH_ARG) ==> ((iptr->data_ & 0xFFFFu) == XH_OF_FLOAT(truncf(xh_value_f(XH_ARG))) && (RVD & 0xFFFFu) == (XH_OF_FLOAT(xh_value_f(XH_ARG) - truncf(xh_value_f(XH_ARG))) | XH_SIGN(XH_ARG)))) \
  __CPROVER_ensures(XH_ISINF(XH_ARG) ==> ((iptr->data_ & 0xFFFFu) == XH_ARG && (RVD & 0xFFFFu) == XH_SIGN(XH_ARG))) __CPROVER_ensures(XH_ISNAN(XH_ARG) ==> (XH_ISNAN(RVD) && XH_ISNAN(iptr->data_))) __CPROVER_assigns(*iptr)

/* nextafter: the adjacent binary16 value in the direction of `to` */
#define XH_FROM (from.data_ & 0xFFFFu)
#define XH_TO (to.data_ & 0xFFFFu)
#define XV_CONTRACT_half_float__nextafter__half_half \
  __CPROVER_ensures((XH_ISNAN(XH_FROM) || XH_ISNAN(XH_TO)) ==> XH_ISNAN(RVD)) \
  __CPROVER_ensures((XH_ORD(XH_FROM, XH_TO) && XH_VALX(XH_FROM) == XH_VALX(XH_TO)) ==> (RVD & 0xFFFFu) == XH_TO) \
  __CPROVER_ensures((XH_ORD(XH_FROM, XH_TO) && XH_VALX(XH_FROM) != XH_VALX(XH_TO) && XH_ISZERO(XH_FROM)) ==> (RVD & 0xFFFFu) == (XH_SIGN(XH_TO) | 1u)) \
  __CPROVER_ensures((XH_ORD(XH_FROM, XH_TO) && XH_VALX(XH_FROM) != XH_VALX(XH_TO) && !XH_ISZERO(XH_FROM)) ==> \
      (RVD & 0xFFFFu) == (((XH_VALX(XH_FROM) < XH_VALX(XH_TO)) == (XH_SIGN(XH_FROM) == 0)) ? XH_FROM + 1 : XH_FROM - 1)) __CPROVER_assigns()
/* fdim: NaN if an operand is NaN; +0 when x <= y; x - y (correctly rounded, C08 spec) otherwise */
#define XH_X (x.data_ & 0xFFFFu)
#define XH_Y (y.data_ & 0xFFFFu)
#define XV_CONTRACT_half_float__fdim__half_half __CPROVER_ensures(!XH_ORD(XH_X, XH_Y) ==> XH_ISNAN(RVD)) \
  __CPROVER_ensures((XH_ORD(XH_X, XH_Y) && XH_VALX(XH_X) <= XH_VALX(XH_Y)) ==> (RVD & 0xFFFFu) == 0) \
  __CPROVER_ensures((XH_ORD(XH_X, XH_Y) && XH_VALX(XH_X) > XH_VALX(XH_Y)) ==> XH_SAME(RVD, xh_spec_sub(XH_X, XH_Y))) __CPROVER_assigns()
/* fmax / fmin: a NaN operand is ignored; otherwise one of the operands, with the larger / smaller value */
#define XH_MINMAX(OP) __CPROVER_ensures((XH_ISNAN(XH_X) && XH_ISNAN(XH_Y)) ==> XH_ISNAN(RVD)) \
  __CPROVER_ensures((XH_ISNAN(XH_X) && !XH_ISNAN(XH_Y)) ==> (RVD & 0xFFFFu) == XH_Y) __CPROVER_ensures((!XH_ISNAN(XH_X) && XH_ISNAN(XH_Y)) ==> (RVD & 0xFFFFu) == XH_X) \
  __CPROVER_ensures(XH_ORD(XH_X, XH_Y) ==> (((RVD & 0xFFFFu) == XH_X || (RVD & 0xFFFFu) == XH_Y) && XH_VALX(RVD & 0xFFFFu) OP XH_VALX(XH_X) && XH_VALX(RVD & 0xFFFFu) OP XH_VALX(XH_Y))) __CPROVER_assigns()
#define XV_CONTRACT_half_float__fmax__half_half XH_MINMAX(>=)
#define XV_CONTRACT_half_float__fmin__half_half XH_MINMAX(<=)
