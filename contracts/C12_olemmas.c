/* C12 laws for the paired iterators (optional / complex sequences) as lemma harnesses over the contracts of C12_oiter.h:
   every call below is REPLACED by the callee's contract (each discharged separately against its lowered body). */
unsigned long nondet_xv_ul(void);
long nondet_xv_l(void);

static void oit_world(struct S_bsb* c, struct S_oit* a, struct S_oit* b)
{
  xv_n = nondet_xv_ul(); __CPROVER_assume(xv_n <= XV_MAXLEN);
  unsigned long cap = nondet_xv_ul(); __CPROVER_assume(cap == xv_n * sizeof(int));
  xv_arr = malloc(cap); __CPROVER_assume(xv_arr != 0);
  unsigned long ka = nondet_xv_ul(), kb = nondet_xv_ul();
  __CPROVER_assume(ka <= xv_n && kb <= xv_n);
  a->m_itv = xv_arr + ka; a->m_itb.m_index = ka; a->m_itb.p_container = c;
  b->m_itv = xv_arr + kb; b->m_itb.m_index = kb; b->m_itb.p_container = c;
}
#define OSAME(x, y) ((x).m_itv == (y).m_itv && (x).m_itb.m_index == (y).m_itb.m_index && (x).m_itb.p_container == (y).m_itb.p_container)
void lemma_oit_arith(void)
{
  struct S_bsb c; struct S_oit a, b; long n = nondet_xv_l();
  oit_world(&c, &a, &b);
  __CPROVER_assume(n >= -(long)XV_MAXLEN && n <= (long)XV_MAXLEN && (long)a.m_itb.m_index + n >= 0 && (long)a.m_itb.m_index + n <= (long)xv_n);
  struct S_oit t = op_add__roit_l(&a, n);
  __CPROVER_assert(oit__op_sub__roit_c(&t, &a) == n, "(it + n) - it == n");
  struct S_oit u = op_add__l_roit(n, &a);
  __CPROVER_assert(OSAME(u, t), "n + it == it + n");
  struct S_oit w = op_sub__roit_l(&t, n);
  __CPROVER_assert(OSAME(w, a), "(it + n) - n == it");
  __CPROVER_assert(oit__op_eq__roit_c(&w, &a), "(it + n) - n compares equal to it");
  XV_CANARY();
}
void lemma_oit_order(void)
{
  struct S_bsb c; struct S_oit a, b;
  oit_world(&c, &a, &b);
  _Bool lt = oit__op_lt__roit_c(&a, &b), gtr = oit__op_lt__roit_c(&b, &a), eq = oit__op_eq__roit_c(&a, &b);
  __CPROVER_assert(lt == (oit__op_sub__roit_c(&b, &a) > 0), "a < b exactly when b - a > 0");
  __CPROVER_assert(op_le__roit_roit(&a, &b) == !gtr, "<= is the negation of the reversed <");
  __CPROVER_assert(op_gt__roit_roit(&a, &b) == gtr, "> is the reversed <");
  __CPROVER_assert(op_ge__roit_roit(&a, &b) == !lt, ">= is the negation of <");
  __CPROVER_assert(op_ne__roit_roit(&a, &b) == !eq, "!= is the negation of ==");
  __CPROVER_assert((lt + eq + gtr) == 1, "exactly one of <, ==, > for iterators of one container");
  XV_CANARY();
}
void lemma_oit_postfix(void)
{
  struct S_bsb c; struct S_oit a, b;
  oit_world(&c, &a, &b);
  __CPROVER_assume(a.m_itb.m_index < xv_n);
  unsigned long p = a.m_itb.m_index;
  struct S_oit r = op_inc__roit_i(&a, 0);
  __CPROVER_assert(r.m_itb.m_index == p && r.m_itv == xv_arr + p && a.m_itb.m_index == p + 1 && a.m_itv == xv_arr + p + 1, "it++ returns the old position and advances both sub-iterators by one");
  struct S_oit r2 = op_dec__roit_i(&a, 0);
  __CPROVER_assert(r2.m_itb.m_index == p + 1 && a.m_itb.m_index == p && a.m_itv == xv_arr + p, "it-- returns the old position and steps both sub-iterators back by one");
  XV_CANARY();
}
void lemma_oit_traversal(void)
{
  struct S_bsb c; struct S_oit it, end;
  oit_world(&c, &it, &end);
  it.m_itb.m_index = 0; it.m_itv = xv_arr; end.m_itb.m_index = xv_n; end.m_itv = xv_arr + xv_n;
  unsigned long k = 0;
  while (op_ne__roit_roit(&it, &end))
    __CPROVER_assigns(k, it.m_itb.m_index, it.m_itv)
    __CPROVER_loop_invariant(k <= xv_n && it.m_itb.m_index == k && it.m_itv == xv_arr + k && it.m_itb.p_container == &c && end.m_itb.m_index == xv_n && end.m_itv == xv_arr + xv_n && end.m_itb.p_container == &c)
    __CPROVER_decreases(xv_n - k)
  {
    /* the k-th position visited is position k of both storages */
    oit__op_inc__v(&it);
    ++k;
  }
  __CPROVER_assert(k == xv_n && it.m_itb.m_index == xv_n, "forward traversal visits exactly size() positions, in order, in both storages");
  XV_CANARY();
}

static void cit_world(struct S_cit* a, struct S_cit* b)
{
  xv_n = nondet_xv_ul(); __CPROVER_assume(xv_n <= XV_MAXLEN);
  unsigned long cap = nondet_xv_ul(); __CPROVER_assume(cap == xv_n * sizeof(int));
  xv_arr = malloc(cap); xv_arr2 = malloc(cap); __CPROVER_assume(xv_arr != 0 && xv_arr2 != 0);
  unsigned long ka = nondet_xv_ul(), kb = nondet_xv_ul();
  __CPROVER_assume(ka <= xv_n && kb <= xv_n);
  a->m_it_real = xv_arr + ka; a->m_it_imag = xv_arr2 + ka;
  b->m_it_real = xv_arr + kb; b->m_it_imag = xv_arr2 + kb;
}
#define CSAME(x, y) ((x).m_it_real == (y).m_it_real && (x).m_it_imag == (y).m_it_imag)
void lemma_cit_arith(void)
{
  struct S_cit a, b; long n = nondet_xv_l();
  cit_world(&a, &b);
  __CPROVER_assume(n >= -(long)XV_MAXLEN && n <= (long)XV_MAXLEN && (a.m_it_real - xv_arr) + n >= 0 && (a.m_it_real - xv_arr) + n <= (long)xv_n);
  struct S_cit t = op_add__rcit_l(&a, n);
  __CPROVER_assert(cit__op_sub__rcit_c(&t, &a) == n, "(it + n) - it == n");
  struct S_cit u = op_add__l_rcit(n, &a);
  __CPROVER_assert(CSAME(u, t), "n + it == it + n");
  struct S_cit w = op_sub__rcit_l(&t, n);
  __CPROVER_assert(CSAME(w, a), "(it + n) - n == it");
  __CPROVER_assert(cit__op_eq__rcit_c(&w, &a), "(it + n) - n compares equal to it");
  XV_CANARY();
}
void lemma_cit_order(void)
{
  struct S_cit a, b;
  cit_world(&a, &b);
  _Bool lt = cit__op_lt__rcit_c(&a, &b), gtr = cit__op_lt__rcit_c(&b, &a), eq = cit__op_eq__rcit_c(&a, &b);
  __CPROVER_assert(lt == (cit__op_sub__rcit_c(&b, &a) > 0), "a < b exactly when b - a > 0");
  __CPROVER_assert(op_le__rcit_rcit(&a, &b) == !gtr, "<= is the negation of the reversed <");
  __CPROVER_assert(op_gt__rcit_rcit(&a, &b) == gtr, "> is the reversed <");
  __CPROVER_assert(op_ge__rcit_rcit(&a, &b) == !lt, ">= is the negation of <");
  __CPROVER_assert(op_ne__rcit_rcit(&a, &b) == !eq, "!= is the negation of ==");
  __CPROVER_assert((lt + eq + gtr) == 1, "exactly one of <, ==, >");
  XV_CANARY();
}
void lemma_cit_postfix(void)
{
  struct S_cit a, b;
  cit_world(&a, &b);
  __CPROVER_assume(a.m_it_real - xv_arr < (long)xv_n);
  int* p = a.m_it_real; int* q = a.m_it_imag;
  struct S_cit r = op_inc__rcit_i(&a, 0);
  __CPROVER_assert(r.m_it_real == p && r.m_it_imag == q && a.m_it_real == p + 1 && a.m_it_imag == q + 1, "it++ returns the old position and advances both sub-iterators by one");
  struct S_cit r2 = op_dec__rcit_i(&a, 0);
  __CPROVER_assert(r2.m_it_real == p + 1 && a.m_it_real == p && a.m_it_imag == q, "it-- returns the old position and steps both sub-iterators back by one");
  XV_CANARY();
}
