
/* ---------------------------------------------------------------------------------------------------------------
   C11 contracts: xoptional_vector<int, std::allocator<int>, xdynamic_bitset<uint8_t>> and its base xoptional_sequence.
   Abstract view: n = size(); element g = (values[g], flags bit g).  LOCKSTEP invariant (OS_WF): the value vector and the
   flag bitset are both well formed and have the same length.  The bitset members are used through their C03 contracts
   (proved there), the vector through the inlined model/xv_vec.h.  Ghosts: xv_g arbitrary element index;
   xv_a0 = old flag g (as the bitset's resize contract names it), xv_a5 = old value g; xv_k / xv_m witnesses of inequality. */
#ifdef XV_C11_ARRAY
/* xoptional_array<int, 3, bitset>: the value storage is std::array<int, 3> (always 3 elements) */
#define OS_N(s) 3ul
#define OS_SIZE_ARG_OK(s) ((s) == 3ul)        /* "called with the container's own size where a size is taken" */
#define OS_VVALID(s) 1
#define OS_VAL(s, k) ((s)->m_values.a[k])
#else
#define OS_N(s) ((s)->m_values.size)
#define OS_SIZE_ARG_OK(s) ((s) <= XV_MAXBLK)
#define OS_VVALID(s) (OS_N(s) <= XV_MAXBLK && __CPROVER_is_fresh((s)->m_values.data, OS_N(s) * sizeof(int)))
#define OS_VAL(s, k) ((s)->m_values.data[k])
#endif
#define OSB(s) (&(s)->m_flags.__base_0)
#define OS_WF(s) (OS_VVALID(s) && WF_bsb(OSB(s)) && OS_N(s) == OSB(s)->m_size)
#define OS_POST(s) (OS_N(s) == OSB(s)->m_size && POST_WF_bsb(OSB(s)))
#define OS_FLAG(s, k) BIT_bsb(OSB(s), k)
#define OS_REF(r, s, i) ((r).m_value == &OS_VAL(s, i) && (r).m_flag.m_block == &OSB(s)->m_buffer.data[(i) / XV_W] && (r).m_flag.m_mask == (xv_blk)((xv_blk)1 << ((i) % XV_W)))
#define XV_BOOL_OK(x) (*(const unsigned char*)&(x) <= 1)
#define OPT_OK(v) (__CPROVER_is_fresh(v, sizeof(*(v))) && XV_BOOL_OK((v)->m_flag))

/* constructors: size s, every element (v, present) resp. (v.value(), v.has_value()) */
#define XV_CONTRACT_os__ctor__ul_ri __CPROVER_requires(OBJ(self) && __CPROVER_is_fresh(v, sizeof(int)) && OS_SIZE_ARG_OK(s)) \
  __CPROVER_ensures(OS_POST(self) && OS_N(self) == s && (xv_g < s ==> (OS_VAL(self, xv_g) == *v && OS_FLAG(self, xv_g) == 1))) __CPROVER_assigns(*self)
#define XV_CONTRACT_os__ctor__T_i_b__ul_rxoptional_25d35 __CPROVER_requires(OBJ(self) && OPT_OK(v) && OS_SIZE_ARG_OK(s)) \
  __CPROVER_ensures(OS_POST(self) && OS_N(self) == s && (xv_g < s ==> (OS_VAL(self, xv_g) == v->m_value && OS_FLAG(self, xv_g) == (unsigned long)v->m_flag))) __CPROVER_assigns(*self)
#define XV_CONTRACT_ov__ctor__ul_ri __CPROVER_requires(OBJ(self) && __CPROVER_is_fresh(v, sizeof(int)) && OS_SIZE_ARG_OK(s)) \
  __CPROVER_ensures(OS_POST(&self->__base_0) && OS_N(&self->__base_0) == s && (xv_g < s ==> (OS_VAL(&self->__base_0, xv_g) == *v && OS_FLAG(&self->__base_0, xv_g) == 1))) __CPROVER_assigns(*self)
#define XV_CONTRACT_ov__ctor__T_i_b__ul_rxoptional_25d35 __CPROVER_requires(OBJ(self) && OPT_OK(v) && OS_SIZE_ARG_OK(s)) \
  __CPROVER_ensures(OS_POST(&self->__base_0) && OS_N(&self->__base_0) == s && (xv_g < s ==> (OS_VAL(&self->__base_0, xv_g) == v->m_value && OS_FLAG(&self->__base_0, xv_g) == (unsigned long)v->m_flag))) __CPROVER_assigns(*self)

/* resize: existing elements preserved, new ones missing (value-initialised) / (v, present) / (v.value(), v.has_value()) */
#define OV_B(s) (&(s)->__base_0)
#define OV_RESIZE_PRE __CPROVER_requires(OBJ(self) && OS_WF(OV_B(self)) && OS_SIZE_ARG_OK(s)) \
  __CPROVER_requires(xv_g < OS_N(OV_B(self)) ==> (xv_a0 == OS_FLAG(OV_B(self), xv_g) && xv_a5 == (unsigned long)(long)OS_VAL(OV_B(self), xv_g)))
#define OV_RESIZE_POST(newv, newf) __CPROVER_ensures(OS_POST(OV_B(self)) && OS_N(OV_B(self)) == s) \
  __CPROVER_ensures(xv_g < s ==> (xv_g < __CPROVER_old(OS_N(OV_B(self))) ? (OS_VAL(OV_B(self), xv_g) == (int)(long)xv_a5 && OS_FLAG(OV_B(self), xv_g) == xv_a0) \
                                                                         : (OS_VAL(OV_B(self), xv_g) == (newv) && OS_FLAG(OV_B(self), xv_g) == (unsigned long)(newf)))) \
  __CPROVER_assigns(*self, __CPROVER_object_whole(self->__base_0.m_flags.__base_0.m_buffer.data))
#define XV_CONTRACT_ov__resize__ul OV_RESIZE_PRE OV_RESIZE_POST(0, 0)
#define XV_CONTRACT_ov__resize__ul_ri OV_RESIZE_PRE __CPROVER_requires(__CPROVER_is_fresh(v, sizeof(int))) OV_RESIZE_POST(*v, 1)
#define XV_CONTRACT_ov__resize__T_i_b__ul_rxoptional_25d35 OV_RESIZE_PRE __CPROVER_requires(OPT_OK(v)) OV_RESIZE_POST(v->m_value, v->m_flag)

/* element access: the proxy designates exactly the pair (values[i], flag bit i); at() throws for i >= size() */
#define OS_ACC_PRE(extra) __CPROVER_requires(OBJ(self) && OS_WF(self) && (extra))
#define XV_CONTRACT_os__at__ul OS_ACC_PRE(xv_exc == 0) __CPROVER_ensures((xv_exc == XV_EXC_out_of_range) == (i >= OS_N(self)) && (xv_exc == 0 || xv_exc == XV_EXC_out_of_range)) \
  __CPROVER_ensures(xv_exc == 0 ==> OS_REF(RV, self, i)) __CPROVER_assigns(xv_exc)
#define XV_CONTRACT_os__at__ul_c XV_CONTRACT_os__at__ul
#define XV_CONTRACT_os__op_index__ul OS_ACC_PRE(i < OS_N(self)) __CPROVER_ensures(OS_REF(RV, self, i)) __CPROVER_assigns()
#define XV_CONTRACT_os__op_index__ul_c XV_CONTRACT_os__op_index__ul
#define XV_CONTRACT_os__front__v OS_ACC_PRE(OS_N(self) > 0) __CPROVER_ensures(OS_REF(RV, self, 0ul)) __CPROVER_assigns()
#define XV_CONTRACT_os__front__v_c XV_CONTRACT_os__front__v
#define XV_CONTRACT_os__back__v OS_ACC_PRE(OS_N(self) > 0) __CPROVER_ensures(OS_REF(RV, self, OS_N(self) - 1)) __CPROVER_assigns()
#define XV_CONTRACT_os__back__v_c XV_CONTRACT_os__back__v
#define XV_CONTRACT_os__size__v_c OS_ACC_PRE(1) __CPROVER_ensures(RV == OS_N(self) && RV == OSB(self)->m_size) __CPROVER_assigns()
#define XV_CONTRACT_os__empty__v_c OS_ACC_PRE(1) __CPROVER_ensures(RV == (OS_N(self) == 0)) __CPROVER_assigns()

/* == holds exactly when sizes, values and flags all match */
#define OS_EQ_PRE __CPROVER_requires(OBJ(lhs) && OBJ(rhs) && OS_WF(lhs) && OS_WF(rhs))
#define OS_ALLEQ (OS_N(lhs) == OS_N(rhs) && (xv_g < OS_N(lhs) ==> (OS_VAL(lhs, xv_g) == OS_VAL(rhs, xv_g) && OS_FLAG(lhs, xv_g) == OS_FLAG(rhs, xv_g))))
#define OS_DIFF (OS_N(lhs) != OS_N(rhs) || (xv_k < OS_N(lhs) && OS_VAL(lhs, xv_k) != OS_VAL(rhs, xv_k)) \
                 || (xv_m < OSB(lhs)->m_buffer.size && OSB(lhs)->m_buffer.data[xv_m] != OSB(rhs)->m_buffer.data[xv_m]))
#define XV_CONTRACT_op_eq__T_xv_vec_int_bs__ros_ros OS_EQ_PRE __CPROVER_ensures(RV ==> OS_ALLEQ) __CPROVER_ensures(!RV ==> OS_DIFF) __CPROVER_assigns(xv_k, xv_m)
#define XV_CONTRACT_op_ne__T_xv_vec_int_bs__ros_ros OS_EQ_PRE __CPROVER_ensures(!RV ==> OS_ALLEQ) __CPROVER_ensures(RV ==> OS_DIFF) __CPROVER_assigns(xv_k, xv_m)

#ifdef XV_C11_ARRAY
#define XV_CONTRACT_oa__ctor__ul_ri __CPROVER_requires(OBJ(self) && __CPROVER_is_fresh(v, sizeof(int)) && OS_SIZE_ARG_OK(s)) \
  __CPROVER_ensures(OS_POST(&self->__base_0) && (xv_g < 3 ==> (OS_VAL(&self->__base_0, xv_g) == *v && OS_FLAG(&self->__base_0, xv_g) == 1))) __CPROVER_assigns(*self)
#define XV_CONTRACT_oa__ctor__T_i_b__ul_rxoptional_25d35 __CPROVER_requires(OBJ(self) && OPT_OK(v) && OS_SIZE_ARG_OK(s)) \
  __CPROVER_ensures(OS_POST(&self->__base_0) && (xv_g < 3 ==> (OS_VAL(&self->__base_0, xv_g) == v->m_value && OS_FLAG(&self->__base_0, xv_g) == (unsigned long)v->m_flag))) __CPROVER_assigns(*self)
/* xoptional_array(): the storages have the length of size() and every element is missing */
#define XV_CONTRACT_xv_unit__make_default__v __CPROVER_ensures(OS_POST(&RV.__base_0) && (xv_g < 3 ==> OS_FLAG(&RV.__base_0, xv_g) == 0)) __CPROVER_assigns()
#endif
