/* C20 contracts: xtl::executable_path, xtl::prefix_path (xsystem.hpp, Linux branch), xtl::endianness (xplatform.hpp).
   World (ghost): the running binary is installed at the absolute path xv_w[0 .. xv_n), 1 <= xv_n <= PATH_MAX, no NUL bytes,
   any other byte values (spaces, non-ASCII); xv_m != 0 means readlink fails.  Sample roles (model/xv_strs.h):
     xv_a0 = position of the last separator, xv_a1 = position of the second-to-last one (xv_a0 == xv_a1 == 0 for a binary in the root directory),
     xv_a2 / xv_a3 = prophecies for the 1st / 2nd separator search of prefix_path, xv_a4 = prophecy for strlen(buffer). */
#define RV __CPROVER_return_value
#define XV_PATH_MAX 4096ul            /* <linux/limits.h> PATH_MAX: "any length up to PATH_MAX" */
char __CPROVER_uninterpreted_wch(unsigned long);
#define XV_W(j) __CPROVER_uninterpreted_wch(j)     /* the install path as a function of the position */
extern unsigned long xv_strs_ncall;
#define XV_STRS_PROPHECY(s, r) (xv_strs_ncall == 1 ? (r) == xv_a2 : xv_strs_ncall == 2 ? (r) == xv_a3 : 1)
#define XV_STRS_COUNT_CALLS 1
#define XV_CSTR_HINT(p) ((unsigned long)xv_n)
#define XV_CSTR_PROPHECY(p, r) ((r) == xv_a4)
/* each job samples at the positions its argument needs (a statement proved at the arbitrary xv_g holds at every position,
   so the caller may use a callee's contract at other sample positions than the ones the callee's own proof used) */
#ifdef XV_JOB_EXE
#define XV_S_ALL(P) (P(xv_g) && P(xv_a4))
#else
#define XV_S_ALL(P) (P(xv_g) && P(xv_a0) && P(xv_a1) && P(xv_a2) && P(xv_a3))
#endif
#include "xv_strs.h"

#define XW_NONUL(j) ((j) < xv_n ==> XV_W(j) != 0)
#define XWORLD (xv_n >= 1 && xv_n <= XV_PATH_MAX && XV_W(0) == '/' && XV_S_ALL(XW_NONUL))

/* POSIX readlink("/proc/self/exe", buf, bufsz): places the path of the running binary in buf, truncated to bufsz bytes,
   WITHOUT a terminating NUL; returns the number of bytes placed, or -1 */
static inline long xv_readlink(const char* path, char* buf, unsigned long bufsz)
{
  __CPROVER_assert(path[0] == '/' && path[1] == 'p' && path[2] == 'r' && path[3] == 'o' && path[4] == 'c' && path[5] == '/' && path[6] == 's' && path[7] == 'e' && path[8] == 'l' && path[9] == 'f'
                   && path[10] == '/' && path[11] == 'e' && path[12] == 'x' && path[13] == 'e' && path[14] == 0, "readlink is asked for /proc/self/exe");
  __CPROVER_assert(__CPROVER_w_ok(buf, bufsz), "readlink: bufsz bytes at buf are writable (no write outside the buffer)");
  if (xv_m != 0) return -1;
  unsigned long len = xv_n < bufsz ? xv_n : bufsz;
  __CPROVER_havoc_slice(buf, len);
#define XV_P_RL(j) ((j) < len ==> buf[j] == XV_W(j))
  XV_NOCHK_BEGIN
  __CPROVER_assume(XV_S_ALL(XV_P_RL));
  XV_NOCHK_END
  return (long)len;
}

/* executable_path() returns exactly the install path */
#define XE_SAME(j) ((j) < xv_n ==> XV_CH(RV, j) == XV_W(j))
#define XV_CONTRACT_executable_path__v __CPROVER_requires(XWORLD) \
  __CPROVER_ensures(xv_exc == 0 && (xv_m != 0 ? RV.size == 0 : (RV.size == xv_n && __CPROVER_is_fresh(RV.data, 1) && XV_S_ALL(XE_SAME) && XV_CH(RV, xv_n) == 0))) \
  __CPROVER_assigns()

/* prefix_path() returns the grandparent directory with a trailing separator: for  D '/' B '/' P  that is  D '/'  = xv_w[0 .. xv_a1] */
#define XW_NOSEP(j) (((j) > xv_a1 && (j) < xv_n && (j) != xv_a0) ==> XV_W(j) != '/')
#define XV_CONTRACT_prefix_path__v __CPROVER_requires(XWORLD && xv_m == 0 && xv_strs_ncall == 0 \
      && (xv_a1 < xv_a0 || (xv_a0 == 0 && xv_a1 == 0)) && xv_a0 < xv_n && XV_W(xv_a0) == '/' && XV_W(xv_a1) == '/' && XV_S_ALL(XW_NOSEP)) \
  __CPROVER_ensures(xv_exc == 0 && RV.size == xv_a1 + 1 && (xv_g <= xv_a1 ==> XV_CH(RV, xv_g) == XV_W(xv_g)) && XV_CH(RV, RV.size) == 0) \
  __CPROVER_assigns(xv_strs_ncall)

/* endianness(): the verified platform (x86-64, CBMC's object representation) stores 0x01020304 least significant byte first */
#define XV_CONTRACT_endianness__v __CPROVER_ensures(RV == 1 /* endian::little_endian */) __CPROVER_assigns()
