/* C12: iterator primitives and the operators derived from them by xbidirectional_iterator_base / xrandom_access_iterator_base.
   Two real iterators: xbitset_iterator<xdynamic_bitset<uint8_t>,false> (view: container pointer, index) and
   xstepping_iterator<int*> (view: pointer into an int array, step; the step is the constant XV_STEP of the verifier run).
   Positions and offsets are arbitrary within "result stays in [begin, end]" (xv_n = container size, ghost).  The laws of the
   property are the lemma harnesses in C12_lemmas.c, proved over these contracts only (callees replaced by contracts). */
#define RV __CPROVER_return_value
#define OBJ(p) __CPROVER_is_fresh(p, sizeof(*(p)))
#define XV_NMAX (1ul << 40)
/* ---------------- bitset iterator ---------------- */
#define BPOS(it) ((it)->m_index)
#define BCON(it) ((it)->p_container)
#define BIN_RANGE(it, n) (xv_n <= XV_NMAX && BPOS(it) <= xv_n && (long)BPOS(it) + (n) >= 0 && (long)BPOS(it) + (n) <= (long)xv_n)
#define BSAME(r, c, p) ((r).p_container == (c) && (r).m_index == (p))
#define XV_CONTRACT_bit__op_inc__v __CPROVER_requires(OBJ(self) && BIN_RANGE(self, 1)) __CPROVER_ensures(BPOS(self) == __CPROVER_old(BPOS(self)) + 1 && BCON(self) == __CPROVER_old(BCON(self)) && RV == self) __CPROVER_assigns(self->m_index)
#define XV_CONTRACT_bit__op_dec__v __CPROVER_requires(OBJ(self) && BIN_RANGE(self, -1)) __CPROVER_ensures(BPOS(self) == __CPROVER_old(BPOS(self)) - 1 && BCON(self) == __CPROVER_old(BCON(self)) && RV == self) __CPROVER_assigns(self->m_index)
#define XV_CONTRACT_bit__op_add_assign__l __CPROVER_requires(OBJ(self) && BIN_RANGE(self, n)) __CPROVER_ensures(BPOS(self) == (unsigned long)((long)__CPROVER_old(BPOS(self)) + n) && BCON(self) == __CPROVER_old(BCON(self)) && RV == self) __CPROVER_assigns(self->m_index)
#define XV_CONTRACT_bit__op_sub_assign__l __CPROVER_requires(OBJ(self) && BIN_RANGE(self, -n) && n >= -(long)XV_NMAX) __CPROVER_ensures(BPOS(self) == (unsigned long)((long)__CPROVER_old(BPOS(self)) - n) && BCON(self) == __CPROVER_old(BCON(self)) && RV == self) __CPROVER_assigns(self->m_index)
#define XV_CONTRACT_bit__op_sub__rbit_c __CPROVER_requires(OBJ(self) && OBJ(rhs) && BPOS(self) <= XV_NMAX && BPOS(rhs) <= XV_NMAX) __CPROVER_ensures(RV == (long)BPOS(self) - (long)BPOS(rhs)) __CPROVER_assigns()
#define XV_CONTRACT_bit__op_eq__rbit_c __CPROVER_requires(OBJ(self) && OBJ(rhs)) __CPROVER_ensures(RV == (BCON(self) == BCON(rhs) && BPOS(self) == BPOS(rhs))) __CPROVER_assigns()
#define XV_CONTRACT_bit__op_lt__rbit_c __CPROVER_requires(OBJ(self) && OBJ(rhs)) __CPROVER_ensures(RV == (BCON(self) == BCON(rhs) && BPOS(self) < BPOS(rhs))) __CPROVER_assigns()
/* dereference: the proxy designates bit m_index of the container (block pointer and mask) */
#define BVALID(c) (OBJ(c) && (c)->m_size <= XV_MAXLEN && (c)->m_buffer.size == ((c)->m_size + 7) / 8 && __CPROVER_is_fresh((c)->m_buffer.data, (c)->m_buffer.size))
#define BDESIG(r, c, p) ((r).m_block == &(c)->m_buffer.data[(p) / 8] && (r).m_mask == (unsigned char)(1u << ((p) % 8)))
#define XV_CONTRACT_bit__op_mul__v_c __CPROVER_requires(OBJ(self) && BVALID(self->p_container) && BPOS(self) < self->p_container->m_size) __CPROVER_ensures(BDESIG(RV, self->p_container, BPOS(self))) __CPROVER_assigns()
/* derived operators */
#define XV_CONTRACT_op_inc__rbit_i __CPROVER_requires(OBJ(d) && BIN_RANGE(d, 1)) __CPROVER_ensures(BSAME(RV, __CPROVER_old(BCON(d)), __CPROVER_old(BPOS(d))) && BPOS(d) == __CPROVER_old(BPOS(d)) + 1 && BCON(d) == __CPROVER_old(BCON(d))) __CPROVER_assigns(d->m_index)
#define XV_CONTRACT_op_dec__rbit_i __CPROVER_requires(OBJ(d) && BIN_RANGE(d, -1)) __CPROVER_ensures(BSAME(RV, __CPROVER_old(BCON(d)), __CPROVER_old(BPOS(d))) && BPOS(d) == __CPROVER_old(BPOS(d)) - 1 && BCON(d) == __CPROVER_old(BCON(d))) __CPROVER_assigns(d->m_index)
#define XV_CONTRACT_op_add__rbit_l __CPROVER_requires(OBJ(it) && BIN_RANGE(it, n)) __CPROVER_ensures(BSAME(RV, BCON(it), (unsigned long)((long)BPOS(it) + n))) __CPROVER_assigns()
#define XV_CONTRACT_op_add__l_rbit __CPROVER_requires(OBJ(it) && BIN_RANGE(it, n)) __CPROVER_ensures(BSAME(RV, BCON(it), (unsigned long)((long)BPOS(it) + n))) __CPROVER_assigns()
#define XV_CONTRACT_op_sub__rbit_l __CPROVER_requires(OBJ(it) && BIN_RANGE(it, -n) && n >= -(long)XV_NMAX) __CPROVER_ensures(BSAME(RV, BCON(it), (unsigned long)((long)BPOS(it) - n))) __CPROVER_assigns()
#define XV_CONTRACT_op_ne__rbit_rbit __CPROVER_requires(OBJ(lhs) && OBJ(rhs)) __CPROVER_ensures(RV == !(BCON(lhs) == BCON(rhs) && BPOS(lhs) == BPOS(rhs))) __CPROVER_assigns()
/* ordering of two iterators of the SAME container */
#define XV_CONTRACT_op_le__rbit_rbit __CPROVER_requires(OBJ(lhs) && OBJ(rhs) && BCON(lhs) == BCON(rhs)) __CPROVER_ensures(RV == (BPOS(lhs) <= BPOS(rhs))) __CPROVER_assigns()
#define XV_CONTRACT_op_ge__rbit_rbit __CPROVER_requires(OBJ(lhs) && OBJ(rhs) && BCON(lhs) == BCON(rhs)) __CPROVER_ensures(RV == (BPOS(lhs) >= BPOS(rhs))) __CPROVER_assigns()
#define XV_CONTRACT_op_gt__rbit_rbit __CPROVER_requires(OBJ(lhs) && OBJ(rhs) && BCON(lhs) == BCON(rhs)) __CPROVER_ensures(RV == (BPOS(lhs) > BPOS(rhs))) __CPROVER_assigns()
/* it[n] designates the same bit as *(it + n) */
#define BITP(s) ((struct S_bit*)(s))
#define XV_CONTRACT_rab_bit__op_index__l_c __CPROVER_requires(__CPROVER_is_fresh(self, sizeof(struct S_bit)) && BVALID(BITP(self)->p_container) && xv_n == BITP(self)->p_container->m_size && BIN_RANGE(BITP(self), n) && (long)BPOS(BITP(self)) + n < (long)xv_n) \
  __CPROVER_ensures(BDESIG(RV, BITP(self)->p_container, (unsigned long)((long)BPOS(BITP(self)) + n))) __CPROVER_assigns()

/* ---------------- stepping iterator over an int array ----------------
   xv_p0 (ghost) = the array, xv_n = its length; the iterator points at element offset SOFF(it) of it */
#ifndef XV_STEP
#define XV_STEP 3
#endif
extern int* xv_arr;      /* ghost: the int array the stepping iterators walk over */
#define SARR xv_arr
#define SOFF(it) ((long)((it)->m_it - SARR))
/* the iterator points at an element of the array (or one past the end): in range and int-aligned */
#define SVALID(it) (__CPROVER_pointer_in_range_dfcc(SARR, (it)->m_it, SARR + xv_n) && __CPROVER_POINTER_OFFSET((it)->m_it) % sizeof(int) == 0 && (it)->m_step == XV_STEP)
#define SWORLD (xv_n <= XV_MAXLEN && __CPROVER_is_fresh(xv_arr, xv_n * sizeof(int)))
#define SIN_RANGE(it, k) (SOFF(it) + (long)(k) * XV_STEP >= 0 && SOFF(it) + (long)(k) * XV_STEP <= (long)xv_n && (k) >= -(long)XV_MAXLEN && (k) <= (long)XV_MAXLEN)
#define SSAME(r, p) ((r).m_it == (p) && (r).m_step == XV_STEP)
#define XV_CONTRACT_sit__op_inc__v __CPROVER_requires(SWORLD && OBJ(self) && SVALID(self) && SIN_RANGE(self, 1)) __CPROVER_ensures(self->m_it == __CPROVER_old(self->m_it) + XV_STEP && self->m_step == XV_STEP && RV == self) __CPROVER_assigns(self->m_it)
#define XV_CONTRACT_sit__op_dec__v __CPROVER_requires(SWORLD && OBJ(self) && SVALID(self) && SIN_RANGE(self, -1)) __CPROVER_ensures(self->m_it == __CPROVER_old(self->m_it) - XV_STEP && self->m_step == XV_STEP && RV == self) __CPROVER_assigns(self->m_it)
#define XV_CONTRACT_sit__op_add_assign__l __CPROVER_requires(SWORLD && OBJ(self) && SVALID(self) && SIN_RANGE(self, n)) __CPROVER_ensures(self->m_it == __CPROVER_old(self->m_it) + n * XV_STEP && self->m_step == XV_STEP && RV == self) __CPROVER_assigns(self->m_it)
#define XV_CONTRACT_sit__op_sub_assign__l __CPROVER_requires(SWORLD && OBJ(self) && SVALID(self) && SIN_RANGE(self, -n)) __CPROVER_ensures(self->m_it == __CPROVER_old(self->m_it) - n * XV_STEP && self->m_step == XV_STEP && RV == self) __CPROVER_assigns(self->m_it)
/* distance in steps: both iterators are a whole number of steps apart (they were produced by stepping from one another) */
#define XV_CONTRACT_sit__op_sub__rsit_c __CPROVER_requires(SWORLD && OBJ(self) && OBJ(rhs) && SVALID(self) && SVALID(rhs) && (SOFF(self) - SOFF(rhs)) % XV_STEP == 0) \
  __CPROVER_ensures(RV * XV_STEP == SOFF(self) - SOFF(rhs)) __CPROVER_assigns()
#define XV_CONTRACT_sit__op_mul__v_c __CPROVER_requires(SWORLD && OBJ(self) && SVALID(self) && SOFF(self) < (long)xv_n) __CPROVER_ensures(RV == self->m_it) __CPROVER_assigns()
#define XV_CONTRACT_op_eq__T_pi__rsit_rsit __CPROVER_requires(SWORLD && OBJ(lhs) && OBJ(rhs) && SVALID(lhs) && SVALID(rhs)) __CPROVER_ensures(RV == (lhs->m_it == rhs->m_it)) __CPROVER_assigns()
#define XV_CONTRACT_op_lt__T_pi__rsit_rsit __CPROVER_requires(SWORLD && OBJ(lhs) && OBJ(rhs) && SVALID(lhs) && SVALID(rhs)) __CPROVER_ensures(RV == (lhs->m_it < rhs->m_it)) __CPROVER_assigns()
#define XV_CONTRACT_op_inc__rsit_i __CPROVER_requires(SWORLD && OBJ(d) && SVALID(d) && SIN_RANGE(d, 1)) __CPROVER_ensures(SSAME(RV, __CPROVER_old(d->m_it)) && d->m_it == __CPROVER_old(d->m_it) + XV_STEP && d->m_step == XV_STEP) __CPROVER_assigns(d->m_it)
#define XV_CONTRACT_op_dec__rsit_i __CPROVER_requires(SWORLD && OBJ(d) && SVALID(d) && SIN_RANGE(d, -1)) __CPROVER_ensures(SSAME(RV, __CPROVER_old(d->m_it)) && d->m_it == __CPROVER_old(d->m_it) - XV_STEP && d->m_step == XV_STEP) __CPROVER_assigns(d->m_it)
#define XV_CONTRACT_op_add__rsit_l __CPROVER_requires(SWORLD && OBJ(it) && SVALID(it) && SIN_RANGE(it, n)) __CPROVER_ensures(SSAME(RV, it->m_it + n * XV_STEP)) __CPROVER_assigns()
#define XV_CONTRACT_op_add__l_rsit __CPROVER_requires(SWORLD && OBJ(it) && SVALID(it) && SIN_RANGE(it, n)) __CPROVER_ensures(SSAME(RV, it->m_it + n * XV_STEP)) __CPROVER_assigns()
#define XV_CONTRACT_op_sub__rsit_l __CPROVER_requires(SWORLD && OBJ(it) && SVALID(it) && SIN_RANGE(it, -n)) __CPROVER_ensures(SSAME(RV, it->m_it - n * XV_STEP)) __CPROVER_assigns()
#define XV_CONTRACT_op_ne__rsit_rsit __CPROVER_requires(SWORLD && OBJ(lhs) && OBJ(rhs) && SVALID(lhs) && SVALID(rhs)) __CPROVER_ensures(RV == (lhs->m_it != rhs->m_it)) __CPROVER_assigns()
#define XV_CONTRACT_op_le__rsit_rsit __CPROVER_requires(SWORLD && OBJ(lhs) && OBJ(rhs) && SVALID(lhs) && SVALID(rhs)) __CPROVER_ensures(RV == (lhs->m_it <= rhs->m_it)) __CPROVER_assigns()
#define XV_CONTRACT_op_ge__rsit_rsit __CPROVER_requires(SWORLD && OBJ(lhs) && OBJ(rhs) && SVALID(lhs) && SVALID(rhs)) __CPROVER_ensures(RV == (lhs->m_it >= rhs->m_it)) __CPROVER_assigns()
#define XV_CONTRACT_op_gt__rsit_rsit __CPROVER_requires(SWORLD && OBJ(lhs) && OBJ(rhs) && SVALID(lhs) && SVALID(rhs)) __CPROVER_ensures(RV == (lhs->m_it > rhs->m_it)) __CPROVER_assigns()
#define SITP(s) ((struct S_sit*)(s))
#define XV_CONTRACT_rab_sit__op_index__l_c __CPROVER_requires(SWORLD && __CPROVER_is_fresh(self, sizeof(struct S_sit)) && SVALID(SITP(self)) && SIN_RANGE(SITP(self), n) && SOFF(SITP(self)) + n * XV_STEP < (long)xv_n) \
  __CPROVER_ensures(RV == SITP(self)->m_it + n * XV_STEP) __CPROVER_assigns()
