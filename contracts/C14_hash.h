/* C14: murmur2_x86_impl / murmur_hash<8> against reference MurmurHash2 / MurmurHash64A (Austin Appleby, smhasher
   MurmurHash2.cpp), transcribed here as GHOST code that runs in lock step with the library loop:
     BEFORE hook : reference initialisation          h = seed ^ len            (64A: seed ^ (len * m))
     BODY hook   : reference block step on the same block (the invariant h == ghost says the library step is the reference step)
     AFTER hook  : reference tail switch + final avalanche, result left in ghost xv_a0
   Ghost code only assigns ghost variables (xv_*) and its own block-local temporaries (checked mechanically by the driver).
   Ghost record of what the reference was run on: xv_p0 = buffer, xv_a2 = length, xv_a3 = seed - the wrappers
   (hash_bytes, murmur2_x86, murmur2_x64) are proved against the callee contract to pass these on unchanged.
   buffer is a fresh object of EXACTLY length bytes at an unconstrained address: every read outside [buffer, buffer+length)
   fails a pointer check; the contract frame is empty apart from ghosts, so nothing is written. */
#define M32 0x5bd1e995u
#define M64 0xc6a4a7935bd1e995ul
#define GH32 xv_a7
#define GH64 xv_a7
#define HASH_BUF(buffer, length) (length <= XV_MAXLEN && __CPROVER_is_fresh(buffer, length))
#define RV __CPROVER_return_value

/* ---------------- MurmurHash2 (32 bit) ---------------- */
#define XV_GHOST_BEFORE_murmur2_x86_impl__pv_ul_u_1 \
  { xv_p0 = buffer; xv_a2 = length; xv_a3 = seed; GH32 = (unsigned int)(seed ^ (unsigned int)length); }
#define XV_GHOST_BODY_murmur2_x86_impl__pv_ul_u_1 \
  { unsigned int xv_kk = *(const unsigned int*)data; xv_kk = XV_UMUL32(xv_kk, M32); xv_kk ^= xv_kk >> 24; xv_kk = XV_UMUL32(xv_kk, M32); \
    unsigned int xv_hh = (unsigned int)GH32; xv_hh = XV_UMUL32(xv_hh, M32); xv_hh ^= xv_kk; GH32 = xv_hh; }
#define XV_GHOST_AFTER_murmur2_x86_impl__pv_ul_u_1 \
  { unsigned int xv_hh = (unsigned int)GH32; const unsigned char* xv_q = (const unsigned char*)buffer + (length & ~3ul); \
    switch (length & 3) { case 3: xv_hh ^= (unsigned int)xv_q[2] << 16; case 2: xv_hh ^= (unsigned int)xv_q[1] << 8; case 1: xv_hh ^= xv_q[0]; xv_hh = XV_UMUL32(xv_hh, M32); } \
    xv_hh ^= xv_hh >> 13; xv_hh = XV_UMUL32(xv_hh, M32); xv_hh ^= xv_hh >> 15; xv_a0 = xv_hh; }
#define X86_K ((unsigned long)__CPROVER_POINTER_OFFSET(data))
#define XV_CONTRACT_murmur2_x86_impl__pv_ul_u \
  __CPROVER_requires(HASH_BUF(buffer, length)) \
  __CPROVER_ensures(xv_p0 == buffer && xv_a2 == length && xv_a3 == seed) \
  __CPROVER_ensures(RV == (unsigned int)xv_a0) \
  __CPROVER_assigns(xv_p0, xv_a0, xv_a2, xv_a3, xv_a7)
#define XV_LOOP_murmur2_x86_impl__pv_ul_u_1 \
  __CPROVER_assigns(data, len, h, xv_a7) \
  __CPROVER_loop_invariant(__CPROVER_same_object(data, buffer) && X86_K % 4 == 0 && X86_K + len == length) \
  __CPROVER_loop_invariant(h == (unsigned int)GH32) \
  __CPROVER_decreases(len)
#define XV_CONTRACT_murmur2_x86__pv_ul_u \
  __CPROVER_requires(HASH_BUF(buffer, length)) \
  __CPROVER_ensures(xv_p0 == buffer && xv_a2 == length && xv_a3 == seed) \
  __CPROVER_ensures(RV == (unsigned int)xv_a0) \
  __CPROVER_assigns(xv_p0, xv_a0, xv_a2, xv_a3, xv_a7)

/* ---------------- MurmurHash64A ---------------- */
#define XV_GHOST_BEFORE_murmur_hash__T_8__pv_ul_ul_1 \
  { xv_p0 = buffer; xv_a2 = length; xv_a3 = seed; GH64 = seed ^ XV_UMUL64(length, M64); }
#define XV_GHOST_BODY_murmur_hash__T_8__pv_ul_ul_1 \
  { unsigned long xv_kk = *(const unsigned long*)data; xv_kk = XV_UMUL64(xv_kk, M64); xv_kk ^= xv_kk >> 47; xv_kk = XV_UMUL64(xv_kk, M64); \
    unsigned long xv_hh = GH64; xv_hh ^= xv_kk; xv_hh = XV_UMUL64(xv_hh, M64); GH64 = xv_hh; }
#define XV_GHOST_AFTER_murmur_hash__T_8__pv_ul_ul_1 \
  { unsigned long xv_hh = GH64; const unsigned char* xv_q = (const unsigned char*)buffer + (length & ~7ul); \
    switch (length & 7) { case 7: xv_hh ^= (unsigned long)xv_q[6] << 48; case 6: xv_hh ^= (unsigned long)xv_q[5] << 40; \
      case 5: xv_hh ^= (unsigned long)xv_q[4] << 32; case 4: xv_hh ^= (unsigned long)xv_q[3] << 24; case 3: xv_hh ^= (unsigned long)xv_q[2] << 16; \
      case 2: xv_hh ^= (unsigned long)xv_q[1] << 8; case 1: xv_hh ^= (unsigned long)xv_q[0]; xv_hh = XV_UMUL64(xv_hh, M64); } \
    xv_hh ^= xv_hh >> 47; xv_hh = XV_UMUL64(xv_hh, M64); xv_hh ^= xv_hh >> 47; xv_a0 = xv_hh; }
#define X64_K ((unsigned long)__CPROVER_POINTER_OFFSET(data))
#define XV_CONTRACT_murmur_hash__T_8__pv_ul_ul \
  __CPROVER_requires(HASH_BUF(buffer, length)) \
  __CPROVER_ensures(xv_p0 == buffer && xv_a2 == length && xv_a3 == seed) \
  __CPROVER_ensures(RV == xv_a0) \
  __CPROVER_assigns(xv_p0, xv_a0, xv_a2, xv_a3, xv_a7)
#define XV_LOOP_murmur_hash__T_8__pv_ul_ul_1 \
  __CPROVER_assigns(data, hash, xv_a7) \
  __CPROVER_loop_invariant(__CPROVER_same_object(data, buffer) && X64_K % 8 == 0 && X64_K <= (length & ~7ul) && end == (char*)buffer + (length & ~7ul)) \
  __CPROVER_loop_invariant(hash == GH64) \
  __CPROVER_decreases((length & ~7ul) - X64_K)
#define XV_CONTRACT_hash_bytes__pv_ul_ul \
  __CPROVER_requires(HASH_BUF(buffer, length)) \
  __CPROVER_ensures(xv_p0 == buffer && xv_a2 == length && xv_a3 == seed) \
  __CPROVER_ensures(RV == xv_a0) \
  __CPROVER_assigns(xv_p0, xv_a0, xv_a2, xv_a3, xv_a7)
#define XV_CONTRACT_murmur2_x64__pv_ul_ul \
  __CPROVER_requires(HASH_BUF(buffer, length)) \
  __CPROVER_ensures(xv_p0 == buffer && xv_a2 == length && xv_a3 == seed) \
  __CPROVER_ensures(RV == xv_a0) \
  __CPROVER_assigns(xv_p0, xv_a0, xv_a2, xv_a3, xv_a7)
