/* C12 laws as lemma harnesses.  Every call below goes to a function whose contract is discharged separately against its
   lowered body; here the calls are REPLACED by those contracts, so the laws are consequences of the contracts alone. */
unsigned long nondet_xv_ul(void);
long nondet_xv_l(void);

/* ---------- bitset iterator ---------- */
static void bit_world(struct S_bsb* c, struct S_bit* a, struct S_bit* b)
{
  xv_n = nondet_xv_ul(); __CPROVER_assume(xv_n <= XV_NMAX);
  a->p_container = c; b->p_container = c;
  a->m_index = nondet_xv_ul(); b->m_index = nondet_xv_ul();
  __CPROVER_assume(a->m_index <= xv_n && b->m_index <= xv_n);
}
void lemma_bit_arith(void)
{
  struct S_bsb c; struct S_bit a, b; long n = nondet_xv_l();
  bit_world(&c, &a, &b);
  __CPROVER_assume((long)a.m_index + n >= 0 && (long)a.m_index + n <= (long)xv_n);
  struct S_bit t = op_add__rbit_l(&a, n);
  __CPROVER_assert(bit__op_sub__rbit_c(&t, &a) == n, "(it + n) - it == n");
  struct S_bit u = op_add__l_rbit(n, &a);
  __CPROVER_assert(u.p_container == t.p_container && u.m_index == t.m_index, "n + it == it + n");
  struct S_bit w = op_sub__rbit_l(&t, n);
  __CPROVER_assert(w.p_container == a.p_container && w.m_index == a.m_index, "(it + n) - n == it");
  __CPROVER_assert(bit__op_eq__rbit_c(&w, &a), "(it + n) - n compares equal to it");
  XV_CANARY();
}
void lemma_bit_order(void)
{
  struct S_bsb c; struct S_bit a, b;
  bit_world(&c, &a, &b);
  _Bool lt = bit__op_lt__rbit_c(&a, &b), gtr = bit__op_lt__rbit_c(&b, &a), eq = bit__op_eq__rbit_c(&a, &b);
  __CPROVER_assert(lt == (bit__op_sub__rbit_c(&b, &a) > 0), "a < b exactly when b - a > 0");
  __CPROVER_assert(op_le__rbit_rbit(&a, &b) == !gtr, "<= is the negation of the reversed <");
  __CPROVER_assert(op_gt__rbit_rbit(&a, &b) == gtr, "> is the reversed <");
  __CPROVER_assert(op_ge__rbit_rbit(&a, &b) == !lt, ">= is the negation of <");
  __CPROVER_assert(op_ne__rbit_rbit(&a, &b) == !eq, "!= is the negation of ==");
  __CPROVER_assert((lt + eq + gtr) == 1, "exactly one of <, ==, > for iterators of one container");
  XV_CANARY();
}
void lemma_bit_postfix(void)
{
  struct S_bsb c; struct S_bit a, b;
  bit_world(&c, &a, &b);
  __CPROVER_assume(a.m_index < xv_n);
  unsigned long p = a.m_index;
  struct S_bit r = op_inc__rbit_i(&a, 0);
  __CPROVER_assert(r.m_index == p && r.p_container == &c && a.m_index == p + 1, "it++ returns the old position and advances by one");
  struct S_bit r2 = op_dec__rbit_i(&a, 0);
  __CPROVER_assert(r2.m_index == p + 1 && a.m_index == p, "it-- returns the old position and steps back by one");
  XV_CANARY();
}
void lemma_bit_traversal(void)
{
  struct S_bsb c; struct S_bit it, end;
  bit_world(&c, &it, &end);
  it.m_index = 0; end.m_index = xv_n;
  unsigned long k = 0;
  while (op_ne__rbit_rbit(&it, &end))
    __CPROVER_assigns(k, it.m_index)
    __CPROVER_loop_invariant(k <= xv_n && it.m_index == k && it.p_container == &c && end.m_index == xv_n && end.p_container == &c)
    __CPROVER_decreases(xv_n - k)
  {
    /* the k-th element visited is element k of the container */
    bit__op_inc__v(&it);
    ++k;
  }
  __CPROVER_assert(k == xv_n && it.m_index == xv_n, "forward traversal visits exactly size() positions, in order");
  while (it.m_index != 0)
    __CPROVER_assigns(k, it.m_index)
    __CPROVER_loop_invariant(k <= xv_n && it.m_index == k && it.p_container == &c)
    __CPROVER_decreases(k)
  {
    bit__op_dec__v(&it);
    --k;
  }
  __CPROVER_assert(k == 0, "reverse traversal returns to begin()");
  XV_CANARY();
}
void lemma_bit_index(void)
{
  struct S_bsb* c = malloc(sizeof(*c)); struct S_bit* a = malloc(sizeof(*a)); long n = nondet_xv_l();
  __CPROVER_assume(c != 0 && a != 0);
  c->m_size = nondet_xv_ul(); __CPROVER_assume(c->m_size <= XV_MAXLEN);
  c->m_buffer.size = (c->m_size + 7) / 8; c->m_buffer.data = malloc(c->m_buffer.size); __CPROVER_assume(c->m_buffer.data != 0);
  xv_n = c->m_size; a->p_container = c; a->m_index = nondet_xv_ul();
  __CPROVER_assume(a->m_index <= xv_n && (long)a->m_index + n >= 0 && (long)a->m_index + n < (long)xv_n);
  struct S_bsref r1 = rab_bit__op_index__l_c(&a->__base_0, n);
  struct S_bit t = op_add__rbit_l(a, n);
  struct S_bsref r2 = bit__op_mul__v_c(&t);
  __CPROVER_assert(r1.m_block == r2.m_block && r1.m_mask == r2.m_mask, "it[n] designates the same element as *(it + n)");
  XV_CANARY();
}

/* ---------- stepping iterator (step = XV_STEP) ---------- */
static void sit_world(struct S_sit* a, struct S_sit* b)
{
  xv_n = nondet_xv_ul(); __CPROVER_assume(xv_n <= XV_MAXLEN);
  unsigned long cap = nondet_xv_ul(); __CPROVER_assume(cap == xv_n * sizeof(int));
  xv_arr = malloc(cap); __CPROVER_assume(xv_arr != 0);
  unsigned long ka = nondet_xv_ul(), kb = nondet_xv_ul();
  __CPROVER_assume(ka <= XV_MAXLEN && kb <= XV_MAXLEN && ka * XV_STEP <= xv_n && kb * XV_STEP <= xv_n);
  a->m_it = xv_arr + ka * XV_STEP; b->m_it = xv_arr + kb * XV_STEP; a->m_step = XV_STEP; b->m_step = XV_STEP;
}
void lemma_sit_arith(void)
{
  struct S_sit a, b; long n = nondet_xv_l();
  sit_world(&a, &b);
  __CPROVER_assume(n >= -(long)XV_MAXLEN && n <= (long)XV_MAXLEN && (a.m_it - xv_arr) + n * XV_STEP >= 0 && (a.m_it - xv_arr) + n * XV_STEP <= (long)xv_n);
  struct S_sit t = op_add__rsit_l(&a, n);
  __CPROVER_assert(sit__op_sub__rsit_c(&t, &a) == n, "(it + n) - it == n");
  struct S_sit u = op_add__l_rsit(n, &a);
  __CPROVER_assert(u.m_it == t.m_it && u.m_step == t.m_step, "n + it == it + n");
  struct S_sit w = op_sub__rsit_l(&t, n);
  __CPROVER_assert(w.m_it == a.m_it && w.m_step == a.m_step, "(it + n) - n == it");
  XV_CANARY();
}
void lemma_sit_order(void)
{
  struct S_sit a, b;
  sit_world(&a, &b);
  _Bool lt = op_lt__T_pi__rsit_rsit(&a, &b), gtr = op_lt__T_pi__rsit_rsit(&b, &a), eq = op_eq__T_pi__rsit_rsit(&a, &b);
  __CPROVER_assert(lt == (sit__op_sub__rsit_c(&b, &a) > 0), "a < b exactly when b - a > 0");
  __CPROVER_assert(op_le__rsit_rsit(&a, &b) == !gtr, "<= is the negation of the reversed <");
  __CPROVER_assert(op_gt__rsit_rsit(&a, &b) == gtr, "> is the reversed <");
  __CPROVER_assert(op_ge__rsit_rsit(&a, &b) == !lt, ">= is the negation of <");
  __CPROVER_assert(op_ne__rsit_rsit(&a, &b) == !eq, "!= is the negation of ==");
  XV_CANARY();
}
void lemma_sit_postfix_index(void)
{
  struct S_sit a, b; long n = nondet_xv_l();
  sit_world(&a, &b);
  __CPROVER_assume((a.m_it - xv_arr) + XV_STEP <= (long)xv_n);
  int* p = a.m_it;
  struct S_sit r = op_inc__rsit_i(&a, 0);
  __CPROVER_assert(r.m_it == p && a.m_it == p + XV_STEP, "it++ returns the old position and advances by one step");
  __CPROVER_assume(n >= -(long)XV_MAXLEN && n <= (long)XV_MAXLEN && (b.m_it - xv_arr) + n * XV_STEP >= 0 && (b.m_it - xv_arr) + n * XV_STEP < (long)xv_n);
  struct S_sit* bb = malloc(sizeof(*bb)); __CPROVER_assume(bb != 0); *bb = b;
  int* e1 = rab_sit__op_index__l_c(&bb->__base_0, n);
  struct S_sit t = op_add__rsit_l(&b, n);
  __CPROVER_assert(e1 == sit__op_mul__v_c(&t), "it[n] designates the same element as *(it + n)");
  XV_CANARY();
}
void lemma_sit_traversal(void)
{
  struct S_sit it, end;
  sit_world(&it, &end);
  unsigned long m = (unsigned long)(end.m_it - xv_arr) / XV_STEP;      /* end = begin + m steps */
  it.m_it = xv_arr;
  unsigned long k = 0;
  while (op_ne__rsit_rsit(&it, &end))
    __CPROVER_assigns(k, it.m_it)
    __CPROVER_loop_invariant(k <= m && it.m_it == xv_arr + k * XV_STEP && it.m_step == XV_STEP && end.m_it == xv_arr + m * XV_STEP && end.m_step == XV_STEP && m * XV_STEP <= xv_n)
    __CPROVER_decreases(m - k)
  {
    /* the k-th element visited is element k * step of the array */
    sit__op_inc__v(&it);
    ++k;
  }
  __CPROVER_assert(k == m, "a traversal with step s visits exactly the elements 0, s, 2s, ... in order");
  XV_CANARY();
}
