/* C13: base64encode / base64decode against RFC 4648 spec terms (written from the RFC, not from the code).
   View of a string: (size, data[0..size)).  xv_g, xv_k are arbitrary ghost indices: a statement about position xv_g
   is a statement about every position.  xv_a0..xv_a7 are ghost scalars DEFINED by equalities in requires clauses
   (let-bindings of spec terms: each is a total function of the input, so the equalities exclude no input; the
   reachability canary of every harness guards against an accidental contradiction).  All index arithmetic is written
   division-free (floor/ceil characterised by linear inequalities) because dividers are what the SAT back end is slow on. */
#define B64_N(s) ((s)->size)
#define B64_IN(s) (__CPROVER_is_fresh(s, sizeof(*(s))) && B64_N(s) <= XV_MAXLEN && __CPROVER_is_fresh((s)->data, B64_N(s)))
#define UB(s, k) ((unsigned long)(unsigned char)(s)->data[k])
/* RFC 4648 table 1, by ASCII ranges (argument evaluated as a plain variable) */
#define ALPHA_OF(x) ((char)((x) + ((x) < 26 ? 65 : (x) < 52 ? 71 : (x) < 62 ? -4 : (x) == 62 ? -19 : -16)))
#define IS_ALPHA(c) (((c) >= 'A' && (c) <= 'Z') || ((c) >= 'a' && (c) <= 'z') || ((c) >= '0' && (c) <= '9') || (c) == '+' || (c) == '/')
#define DEC_OF(c) ((unsigned long)((c) >= 'A' && (c) <= 'Z' ? (c) - 65 : (c) >= 'a' && (c) <= 'z' ? (c) - 71 : (c) >= '0' && (c) <= '9' ? (c) + 4 : (c) == '+' ? 62 : 63))
#define RV __CPROVER_return_value

/* ---------------- encode ----------------
   ghost let-bindings for the sextet with index xv_g:
   xv_a0 = floor(6g/8) (byte holding its first bit), xv_a1/xv_a2 = that byte and the next (0 past the end),
   xv_a3 = the 6-bit group = bits [6g, 6g+6) of the big-endian bit string */
#define ENC_LET \
  __CPROVER_requires(xv_g <= 2 * XV_MAXLEN) \
  __CPROVER_requires(xv_a0 <= 2 * XV_MAXLEN && 8 * xv_a0 <= 6 * xv_g && 6 * xv_g < 8 * xv_a0 + 8) \
  __CPROVER_requires(xv_a1 == (xv_a0 < B64_N(input) ? UB(input, xv_a0) : 0)) \
  __CPROVER_requires(xv_a2 == (xv_a0 + 1 < B64_N(input) ? UB(input, xv_a0 + 1) : 0)) \
  __CPROVER_requires(xv_a3 == ((((xv_a1 << 8) | xv_a2) >> (10 - (6 * xv_g - 8 * xv_a0))) & 0x3F))
#define ENC_I ((unsigned long)__CPROVER_POINTER_OFFSET(__begin1))
#define XV_CONTRACT_base64encode__rxv_str \
  __CPROVER_requires(B64_IN(input)) \
  ENC_LET \
  /* length = 4*ceil(n/3): the multiple of 4 with 4n <= 3*len < 4n + 12 */ \
  __CPROVER_ensures(RV.size % 4 == 0 && 4 * B64_N(input) <= 3 * RV.size && 3 * RV.size < 4 * B64_N(input) + 12) \
  /* character g: alphabet character of sextet g for g < ceil(8n/6), '=' after that */ \
  __CPROVER_ensures(xv_g < RV.size ==> RV.data[xv_g] == (6 * xv_g < 8 * B64_N(input) ? ALPHA_OF(xv_a3) : '=')) \
  __CPROVER_assigns()
#define XV_LOOP_base64encode__rxv_str_1 \
  __CPROVER_assigns(__begin1, val, valb, output.size, __CPROVER_object_whole(output.data)) \
  __CPROVER_loop_invariant(__CPROVER_same_object(__begin1, input->data) && ENC_I <= B64_N(input) && __end1 == input->data + B64_N(input)) \
  __CPROVER_loop_invariant(output.data == __CPROVER_loop_entry(output.data)) \
  /* pending bits: 8 bits in per byte, 6 bits out per character */ \
  __CPROVER_loop_invariant(output.size <= 2 * XV_MAXLEN) \
  __CPROVER_loop_invariant((valb == -6 || valb == -4 || valb == -2) && 8 * ENC_I == 6 * output.size + (unsigned long)(valb + 6)) \
  __CPROVER_loop_invariant(ENC_I > 0 ==> (unsigned long)(val & 0xFF) == UB(input, ENC_I - 1)) \
  __CPROVER_loop_invariant(xv_g < output.size ==> output.data[xv_g] == ALPHA_OF(xv_a3)) \
  __CPROVER_decreases(B64_N(input) - ENC_I)

/* ---------------- decode ----------------
   xv_m (ghost, set by the hook after the main loop): the position at which decoding stopped.
   let-bindings for output byte xv_g: xv_a0 = floor(8g/6) (first sextet), xv_a1/xv_a2 = values of the two
   characters there (xv_a5/xv_a6 the characters themselves), xv_a3 = bits [8g, 8g+8) of the sextet stream;
   xv_a4 = the character at ghost position xv_k */
#define XV_GHOST_AFTER_base64decode__rxv_str_2 xv_m = (unsigned long)(__begin1 - input->data)
#define DEC_LET \
  __CPROVER_requires(xv_g <= XV_MAXLEN) \
  __CPROVER_requires(6 * xv_a0 <= 8 * xv_g && 8 * xv_g < 6 * xv_a0 + 6) \
  __CPROVER_requires(xv_a0 <= XV_MAXLEN) \
  __CPROVER_requires(xv_a0 + 1 < B64_N(input) ==> (xv_a5 == (unsigned long)(unsigned char)input->data[xv_a0] && xv_a6 == (unsigned long)(unsigned char)input->data[xv_a0 + 1])) \
  __CPROVER_requires(xv_a1 == DEC_OF((char)(unsigned char)xv_a5) && xv_a2 == DEC_OF((char)(unsigned char)xv_a6)) \
  __CPROVER_requires(xv_a3 == ((((xv_a1 << 6) | xv_a2) >> (4 - (8 * xv_g - 6 * xv_a0))) & 0xFF)) \
  __CPROVER_requires(xv_k < B64_N(input) ==> xv_a4 == (unsigned long)(unsigned char)input->data[xv_k])
#define A4 ((char)(unsigned char)xv_a4)
#define DEC_I ((unsigned long)__CPROVER_POINTER_OFFSET(__begin1))
#define XV_CONTRACT_base64decode__rxv_str \
  __CPROVER_requires(B64_IN(input)) \
  DEC_LET \
  __CPROVER_ensures(xv_m <= B64_N(input)) \
  /* everything before the stop position is in the alphabet; the stop position is the end or a non-alphabet byte */ \
  __CPROVER_ensures(xv_k < xv_m ==> IS_ALPHA(A4)) \
  __CPROVER_ensures(xv_k == xv_m && xv_m < B64_N(input) ==> !IS_ALPHA(A4)) \
  /* only whole bytes: size = floor(6*stop/8) */ \
  __CPROVER_ensures(8 * RV.size <= 6 * xv_m && 6 * xv_m < 8 * RV.size + 8) \
  __CPROVER_ensures(xv_g < RV.size ==> (unsigned long)(unsigned char)RV.data[xv_g] == xv_a3) \
  __CPROVER_assigns(xv_m)
#define XV_LOOP_base64decode__rxv_str_2 \
  __CPROVER_assigns(__begin1, val, valb, output.size, __CPROVER_object_whole(output.data)) \
  __CPROVER_loop_invariant(__CPROVER_same_object(__begin1, input->data) && DEC_I <= B64_N(input) && __end1 == input->data + B64_N(input)) \
  __CPROVER_loop_invariant(output.data == __CPROVER_loop_entry(output.data)) \
  __CPROVER_loop_invariant(xv_k < DEC_I ==> IS_ALPHA(A4)) \
  __CPROVER_loop_invariant(output.size <= XV_MAXLEN) \
  __CPROVER_loop_invariant((valb == -8 || valb == -6 || valb == -4 || valb == -2) && 6 * DEC_I == 8 * output.size + (unsigned long)(valb + 8)) \
  /* the low sextet of val is the value of the previous character (stated through the alphabet map: one array read) */ \
  __CPROVER_loop_invariant(DEC_I > 0 ==> ALPHA_OF((val & 0x3F)) == input->data[DEC_I - 1]) \
  __CPROVER_loop_invariant(xv_g < output.size ==> (unsigned long)(unsigned char)output.data[xv_g] == xv_a3) \
  __CPROVER_decreases(B64_N(input) - DEC_I)
