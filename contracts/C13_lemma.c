/* C13 round-trip lemma over the spec terms of C13_base64.h (no library code involved):
   for every byte string s and every position g < |s|:  dec(enc(s)) has length |s| and byte g equals s[g],
   where enc/dec are exactly the characterisations that the two function contracts establish:
     enc(s)[j] = alphabet(sextet j of s) for j < ceil(8n/6), '=' up to length 4*ceil(n/3);
     dec(t)    = whole bytes of the sextet stream of the longest alphabet prefix of t.
   Composition (DESIGN.md C13): base64encode returns enc(s) at every index (ghost index arbitrary), base64decode returns
   dec(t) for any t, hence base64decode(base64encode(s)) == s. */
#include "xv_std.h"
#include "C13_base64.h"
unsigned long nondet_xv_ul(void);
static unsigned long sext_of(const unsigned char* d, unsigned long n, unsigned long j)
{
  unsigned long b = (6 * j) / 8, sh = (6 * j) % 8;
  unsigned long c0 = b < n ? d[b] : 0, c1 = b + 1 < n ? d[b + 1] : 0;
  return (((c0 << 8) | c1) >> (10 - sh)) & 0x3F;
}
static char enc_char(const unsigned char* d, unsigned long n, unsigned long j)
{
  unsigned long x = sext_of(d, n, j);
  return 6 * j < 8 * n ? ALPHA_OF(x) : '=';
}
void lemma_roundtrip(void)
{
  unsigned long n = nondet_xv_ul(), g = nondet_xv_ul(), k = nondet_xv_ul();
  __CPROVER_assume(n <= XV_MAXLEN);
  unsigned char* d = (unsigned char*)malloc(n);
  __CPROVER_assume(d != 0);
  unsigned long m = (8 * n + 5) / 6;          /* number of sextets = ceil(8n/6) */
  unsigned long L = 4 * ((n + 2) / 3);        /* encoded length */
  __CPROVER_assert(m <= L, "alphabet part fits the encoded length");
  /* (1) the longest alphabet prefix of enc(s) is exactly its first m characters */
  __CPROVER_assume(k < L);
  char ck = enc_char(d, n, k);
  __CPROVER_assert(k < m ==> IS_ALPHA(ck), "every character before position m is an alphabet character");
  __CPROVER_assert(k >= m ==> ck == '=' && !IS_ALPHA(ck), "padding is not an alphabet character, so decoding stops at m (or at the end)");
  /* (2) number of whole bytes in m sextets */
  __CPROVER_assert((6 * m) / 8 == n, "decoded length equals the original length");
  /* (3) byte g of the decoded sextet stream equals s[g] */
  __CPROVER_assume(g < n);
  unsigned long s0 = (8 * g) / 6, sh = (8 * g) % 6;
  char t0 = enc_char(d, n, s0), t1 = enc_char(d, n, s0 + 1);
  __CPROVER_assert(s0 + 1 < m, "both sextets of byte g are inside the alphabet part");
  unsigned long d0 = DEC_OF(t0), d1 = DEC_OF(t1);
  __CPROVER_assert(d0 == sext_of(d, n, s0) && d1 == sext_of(d, n, s0 + 1), "decode map inverts the alphabet map");
  __CPROVER_assert(((((d0 << 6) | d1) >> (4 - sh)) & 0xFF) == d[g], "decoded byte g equals original byte g");
  XV_CANARY();
}
