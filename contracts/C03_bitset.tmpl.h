/* C03 contracts: xdynamic_bitset_base<...> for the owning bitset (K = bsb, storage std::vector model) and the view
   (K = bvb, storage tcb::span over caller memory).  This template is expanded once per K by props/C03.py
   (@K@ -> bsb/bvb, @D@(s) -> block pointer, @N@(s) -> block count).
   Abstract view: n = m_size, bit[g] = (block[g / W] >> (g % W)) & 1.
   wf: block count == ceil(n / W), the block array is a fresh object of EXACTLY that many blocks (so any access outside
   the blocks fails a pointer obligation and the frame object_whole(blocks) is "caller memory outside is untouched"),
   and the bits >= n of the last block are zero (TAILZ).
   Ghosts: xv_g arbitrary bit index; let-bound scalars (guarded reads at function entry, total definitions):
     xv_a0 = old bit g, xv_a1 = old block g/W (shifts: source block), xv_a2 = second source block / rhs block,
     xv_a3 = old bit at the shifted position.  xv_m = witness block index written by the RET hooks. */
#define ONES ((xv_blk)~(xv_blk)0)
#define CEILW(n) (((n) + XV_W - 1) / XV_W)
#define XV_MAXBITS (XV_MAXBLK * XV_W)
#define GBLK (xv_g / XV_W)
#define GOFF (xv_g % XV_W)
#define VALID_@K@(s) (__CPROVER_is_fresh(s, sizeof(*(s))) && (s)->m_size <= XV_MAXBITS && @N@(s) == CEILW((s)->m_size) && __CPROVER_is_fresh(@D@(s), @N@(s) * sizeof(xv_blk)))
#define TAILZ_@K@(s) ((s)->m_size % XV_W == 0 || (@D@(s)[@N@(s) - 1] >> ((s)->m_size % XV_W)) == 0)
#define WF_@K@(s) (VALID_@K@(s) && TAILZ_@K@(s))
#define BIT_@K@(s, k) (((unsigned long)@D@(s)[(k) / XV_W] >> ((k) % XV_W)) & 1)
/* shape unchanged: same size, same block array (pointer and count) */
#define SAME_SHAPE_@K@(s) ((s)->m_size == __CPROVER_old((s)->m_size) && @N@(s) == __CPROVER_old(@N@(s)) && @D@(s) == __CPROVER_old(@D@(s)))
#define POST_WF_@K@(s) (@N@(s) == CEILW((s)->m_size) && TAILZ_@K@(s))
#define LET_OLD_@K@(s) \
  __CPROVER_requires(xv_g < (s)->m_size ==> (xv_a0 == BIT_@K@(s, xv_g) && xv_a1 == @D@(s)[GBLK]))
#define RET_SELF __CPROVER_ensures(__CPROVER_return_value == self)
#define FRAME_@K@ __CPROVER_assigns(__CPROVER_object_whole(@D@(self)))

/* ---- observers ---- */
#define XV_CONTRACT_@K@__size__v_c __CPROVER_requires(WF_@K@(self)) __CPROVER_ensures(__CPROVER_return_value == self->m_size) __CPROVER_assigns()
#define XV_CONTRACT_@K@__empty__v_c __CPROVER_requires(WF_@K@(self)) __CPROVER_ensures(__CPROVER_return_value == (self->m_size == 0)) __CPROVER_assigns()
#define XV_CONTRACT_@K@__block_count__v_c __CPROVER_requires(WF_@K@(self)) __CPROVER_ensures(__CPROVER_return_value == CEILW(self->m_size)) __CPROVER_assigns()
#define XV_CONTRACT_@K@__data__v_c __CPROVER_requires(WF_@K@(self)) __CPROVER_ensures(__CPROVER_return_value == @D@(self)) __CPROVER_assigns()
#define XV_CONTRACT_@K@__data__v __CPROVER_requires(WF_@K@(self)) __CPROVER_ensures(__CPROVER_return_value == @D@(self)) __CPROVER_assigns()

/* ---- canonical last block ---- */
#define XV_CONTRACT_@K@__zero_unused_bits__v \
  __CPROVER_requires(VALID_@K@(self)) LET_OLD_@K@(self) \
  __CPROVER_ensures(SAME_SHAPE_@K@(self) && TAILZ_@K@(self)) \
  __CPROVER_ensures(xv_g < self->m_size ==> BIT_@K@(self, xv_g) == xv_a0) \
  FRAME_@K@

/* ---- whole-sequence updates ---- */
#define XV_CONTRACT_@K@__set__v \
  __CPROVER_requires(WF_@K@(self)) \
  __CPROVER_ensures(SAME_SHAPE_@K@(self) && POST_WF_@K@(self)) \
  __CPROVER_ensures(xv_g < self->m_size ==> BIT_@K@(self, xv_g) == 1) RET_SELF FRAME_@K@
#define XV_CONTRACT_@K@__reset__v \
  __CPROVER_requires(WF_@K@(self)) \
  __CPROVER_ensures(SAME_SHAPE_@K@(self) && POST_WF_@K@(self)) \
  __CPROVER_ensures(xv_g < self->m_size ==> BIT_@K@(self, xv_g) == 0) RET_SELF FRAME_@K@
#define XV_CONTRACT_@K@__flip__v \
  __CPROVER_requires(WF_@K@(self)) LET_OLD_@K@(self) \
  __CPROVER_ensures(SAME_SHAPE_@K@(self) && POST_WF_@K@(self)) \
  __CPROVER_ensures(xv_g < self->m_size ==> BIT_@K@(self, xv_g) == !xv_a0) RET_SELF FRAME_@K@
#define XV_LOOP_@K@__flip__v_1 \
  __CPROVER_assigns(i, __CPROVER_object_whole(@D@(self))) \
  __CPROVER_loop_invariant(i <= size && size == @N@(self)) \
  __CPROVER_loop_invariant((xv_g < self->m_size && GBLK < i) ==> @D@(self)[GBLK] == (xv_blk)~xv_a1) \
  __CPROVER_loop_invariant((xv_g < self->m_size && GBLK >= i) ==> @D@(self)[GBLK] == (xv_blk)xv_a1) \
  __CPROVER_decreases(size - i)

/* ---- single bit updates: precondition pos < size(), as for std::vector<bool>::operator[] ---- */
#define XV_CONTRACT_@K@__set__ul_b \
  __CPROVER_requires(WF_@K@(self) && pos < self->m_size) LET_OLD_@K@(self) \
  __CPROVER_ensures(SAME_SHAPE_@K@(self) && POST_WF_@K@(self)) \
  __CPROVER_ensures(xv_g < self->m_size ==> BIT_@K@(self, xv_g) == (xv_g == pos ? (unsigned long)value : xv_a0)) RET_SELF FRAME_@K@
#define XV_CONTRACT_@K@__reset__ul \
  __CPROVER_requires(WF_@K@(self) && pos < self->m_size) LET_OLD_@K@(self) \
  __CPROVER_ensures(SAME_SHAPE_@K@(self) && POST_WF_@K@(self)) \
  __CPROVER_ensures(xv_g < self->m_size ==> BIT_@K@(self, xv_g) == (xv_g == pos ? 0 : xv_a0)) RET_SELF FRAME_@K@
#define XV_CONTRACT_@K@__flip__ul \
  __CPROVER_requires(WF_@K@(self) && pos < self->m_size) LET_OLD_@K@(self) \
  __CPROVER_ensures(SAME_SHAPE_@K@(self) && POST_WF_@K@(self)) \
  __CPROVER_ensures(xv_g < self->m_size ==> BIT_@K@(self, xv_g) == (xv_g == pos ? !xv_a0 : xv_a0)) RET_SELF FRAME_@K@

/* ---- shifts: every amount in size_t ----
   <<= : bit'[g] = g >= pos ? bit[g - pos] : 0.  Source blocks of target block T = g/W: T - div and T - div - 1. */
#define SHL_DIV (pos / XV_W)
#define SHL_R (pos % XV_W)
#define XV_CONTRACT_@K@__op_shl_assign__ul \
  __CPROVER_requires(WF_@K@(self)) \
  __CPROVER_requires((xv_g < self->m_size && xv_g >= pos) ==> xv_a3 == BIT_@K@(self, xv_g - pos)) \
  __CPROVER_requires((xv_g < self->m_size && GBLK >= SHL_DIV) ==> xv_a1 == @D@(self)[GBLK - SHL_DIV]) \
  __CPROVER_requires((xv_g < self->m_size && GBLK >= SHL_DIV + 1) ==> xv_a2 == @D@(self)[GBLK - SHL_DIV - 1]) \
  __CPROVER_requires(xv_g < self->m_size ==> xv_gp0_@S@ == &@D@(self)[GBLK]) __CPROVER_requires(xv_g >= self->m_size ==> xv_gp0_@S@ == &xv_dummy_blk) \
  __CPROVER_requires(self->m_size > 0 ==> xv_gp1_@S@ == &@D@(self)[@N@(self) - 1]) __CPROVER_requires(self->m_size == 0 ==> xv_gp1_@S@ == &xv_dummy_blk) \
  __CPROVER_ensures(SAME_SHAPE_@K@(self) && POST_WF_@K@(self)) \
  __CPROVER_ensures(xv_g < self->m_size ==> BIT_@K@(self, xv_g) == (xv_g >= pos ? xv_a3 : 0)) RET_SELF FRAME_@K@
#define SHL_INV_@K@ \
  __CPROVER_assigns(i, __CPROVER_object_whole(b)) \
  __CPROVER_loop_invariant(b == @D@(self) && i <= last - div && last == @N@(self) - 1 && div == SHL_DIV && div <= last && r == SHL_R) \
  /* source blocks not yet overwritten (writes so far went to indices > i + div) */ \
  __CPROVER_loop_invariant((xv_g < self->m_size && GBLK >= div && GBLK - div <= i + div) ==> b[GBLK - div] == (xv_blk)xv_a1) \
  __CPROVER_loop_invariant((xv_g < self->m_size && GBLK >= div + 1 && GBLK - div - 1 <= i + div) ==> b[GBLK - div - 1] == (xv_blk)xv_a2)
#define XV_LOOP_@K@__op_shl_assign__ul_1 SHL_INV_@K@ \
  __CPROVER_loop_invariant(rs == XV_W - r && r != 0) \
  __CPROVER_loop_invariant((xv_g < self->m_size && GBLK > i + div) ==> b[GBLK] == (xv_blk)(((unsigned long)(xv_blk)xv_a1 << r) | ((unsigned long)(xv_blk)xv_a2 >> rs))) \
  __CPROVER_decreases(i)
#define XV_LOOP_@K@__op_shl_assign__ul_2 SHL_INV_@K@ \
  __CPROVER_loop_invariant(r == 0) \
  __CPROVER_loop_invariant((xv_g < self->m_size && GBLK > i + div) ==> b[GBLK] == (xv_blk)xv_a1) \
  __CPROVER_decreases(i)
/* >>= : bit'[g] = g + pos < n ? bit[g + pos] : 0.  Source blocks of target block T: T + div and T + div + 1. */
#define XV_CONTRACT_@K@__op_shr_assign__ul \
  __CPROVER_requires(WF_@K@(self)) \
  __CPROVER_requires((xv_g < self->m_size && pos < self->m_size && xv_g < self->m_size - pos) ==> xv_a3 == BIT_@K@(self, xv_g + pos)) \
  __CPROVER_requires((xv_g < self->m_size && pos < self->m_size && GBLK + SHL_DIV < @N@(self)) ==> xv_a1 == @D@(self)[GBLK + SHL_DIV]) \
  __CPROVER_requires((xv_g < self->m_size && pos < self->m_size && GBLK + SHL_DIV + 1 < @N@(self)) ==> xv_a2 == @D@(self)[GBLK + SHL_DIV + 1]) \
  __CPROVER_requires(xv_g < self->m_size ==> xv_gp0_@S@ == &@D@(self)[GBLK]) __CPROVER_requires(xv_g >= self->m_size ==> xv_gp0_@S@ == &xv_dummy_blk) \
  __CPROVER_requires(self->m_size > 0 ==> xv_gp1_@S@ == &@D@(self)[@N@(self) - 1]) __CPROVER_requires(self->m_size == 0 ==> xv_gp1_@S@ == &xv_dummy_blk) \
  __CPROVER_ensures(SAME_SHAPE_@K@(self) && POST_WF_@K@(self)) \
  __CPROVER_ensures(xv_g < self->m_size ==> BIT_@K@(self, xv_g) == ((pos < self->m_size && xv_g < self->m_size - pos) ? xv_a3 : 0)) RET_SELF FRAME_@K@
#define SHR_INV_@K@ \
  __CPROVER_assigns(i, __CPROVER_object_whole(b)) \
  __CPROVER_loop_invariant(b == @D@(self) && div <= i && last == @N@(self) - 1 && div == SHL_DIV && div <= last && r == SHL_R) \
  /* source blocks not yet overwritten (writes so far went to indices < i - div) */ \
  __CPROVER_loop_invariant((xv_g < self->m_size && GBLK + div <= last && GBLK + div >= i - div) ==> b[GBLK + div] == (xv_blk)xv_a1) \
  __CPROVER_loop_invariant((xv_g < self->m_size && GBLK + div + 1 <= last && GBLK + div + 1 >= i - div) ==> b[GBLK + div + 1] == (xv_blk)xv_a2) \
  /* the last block keeps its zero tail until it is written */ \
  __CPROVER_loop_invariant((last >= i - div) ==> (self->m_size % XV_W == 0 || (b[last] >> (self->m_size % XV_W)) == 0))
#define XV_LOOP_@K@__op_shr_assign__ul_1 SHR_INV_@K@ \
  __CPROVER_loop_invariant(ls == XV_W - r && r != 0 && i <= last) \
  __CPROVER_loop_invariant((xv_g < self->m_size && GBLK + div < i) ==> b[GBLK] == (xv_blk)(((unsigned long)(xv_blk)xv_a1 >> r) | ((unsigned long)(xv_blk)xv_a2 << ls))) \
  __CPROVER_decreases(last - i)
#define XV_LOOP_@K@__op_shr_assign__ul_2 SHR_INV_@K@ \
  __CPROVER_loop_invariant(r == 0 && i <= last + 1) \
  __CPROVER_loop_invariant((xv_g < self->m_size && GBLK + div < i) ==> b[GBLK] == (xv_blk)xv_a1) \
  __CPROVER_decreases(last + 1 - i)

/* ---- whole-sequence reset/set need the last block as second ghost position (TAILZ after the fill) ---- */
#define LET_GP_@K@ \
  __CPROVER_requires(xv_g < self->m_size ==> xv_gp0_@S@ == &@D@(self)[GBLK]) __CPROVER_requires(xv_g >= self->m_size ==> xv_gp0_@S@ == &xv_dummy_blk) \
  __CPROVER_requires(self->m_size > 0 ==> xv_gp1_@S@ == &@D@(self)[@N@(self) - 1]) __CPROVER_requires(self->m_size == 0 ==> xv_gp1_@S@ == &xv_dummy_blk)

/* ---- blockwise combination with another bitset of the same size (precondition: equal sizes; there is no std::vector<bool>
        counterpart that resizes) ---- */
#define BINOP_@K@_@R@(OPC, ALIAS) \
  __CPROVER_requires(WF_@K@(self) && WF_@R@(rhs) && rhs->m_size == self->m_size) LET_OLD_@K@(self) \
  __CPROVER_requires(xv_g < self->m_size ==> xv_a2 == @RD@(rhs)[GBLK]) \
  __CPROVER_ensures(SAME_SHAPE_@K@(self) && POST_WF_@K@(self)) \
  __CPROVER_ensures(xv_g < self->m_size ==> BIT_@K@(self, xv_g) == (xv_a0 OPC (((unsigned long)xv_a2 >> GOFF) & 1))) RET_SELF FRAME_@K@
#define BINLOOP_@K@_@R@(OPC) \
  __CPROVER_assigns(i, __CPROVER_object_whole(@D@(self))) \
  __CPROVER_loop_invariant(i <= size && size == @N@(self)) \
  __CPROVER_loop_invariant((xv_g < self->m_size && GBLK < i) ==> @D@(self)[GBLK] == (xv_blk)((xv_blk)xv_a1 OPC (xv_blk)xv_a2)) \
  __CPROVER_loop_invariant((xv_g < self->m_size && GBLK >= i) ==> @D@(self)[GBLK] == (xv_blk)xv_a1) \
  /* last block: tail bits stay zero (both operands have zero tails) */ \
  __CPROVER_loop_invariant(self->m_size % XV_W == 0 || (@D@(self)[@N@(self) - 1] >> (self->m_size % XV_W)) == 0) \
  __CPROVER_decreases(size - i)
#define XV_CONTRACT_@K@__op_and_assign__T_@RT@__r@R@ BINOP_@K@_@R@(&, and)
#define XV_LOOP_@K@__op_and_assign__T_@RT@__r@R@_1 BINLOOP_@K@_@R@(&)
