/* C12 (second unit): the paired iterators of the optional and complex sequences,
   xoptional_iterator<std::vector<int>::iterator, xbitset_iterator<xdynamic_bitset<uint8_t>, false>>  (value pointer + flag iterator)
   xcomplex_iterator<std::vector<int>::iterator, false>                                              (real pointer + imaginary pointer)
   and the operators derived for them by xbidirectional_iterator_base / xrandom_access_iterator_base.
   View: ONE position k per iterator; the representation invariant "paired" says that both sub-iterators stand at k
   (value pointer == values + k and flag index == k; real == reals + k and imag == imags + k).  Every primitive must keep the
   pair in lockstep - that is the part of C11 ("paired iterators advance both sub-iterators") decided here.
   xv_arr / xv_arr2 (ghost) = the two storages, xv_n = their common length. */
#define RV __CPROVER_return_value
#define OBJ(p) __CPROVER_is_fresh(p, sizeof(*(p)))
extern int* xv_arr;
extern int* xv_arr2;
#define KOK(k) ((k) >= -(long)XV_MAXLEN && (k) <= (long)XV_MAXLEN)
#define PEQ(p, q) __CPROVER_pointer_in_range_dfcc(q, p, q)      /* pointer equality in the form that keeps points-to information when assumed */

/* ---------------- optional iterator ---------------- */
#define OWORLD (xv_n <= XV_MAXLEN && __CPROVER_is_fresh(xv_arr, xv_n * sizeof(int)))
#define OPOS(it) ((it)->m_itb.m_index)
#define OCON(it) ((it)->m_itb.p_container)
#define OPAIRED(it) (OPOS(it) <= xv_n && PEQ((it)->m_itv, xv_arr + OPOS(it)))
#define OIN(it, k) (KOK(k) && (long)OPOS(it) + (k) >= 0 && (long)OPOS(it) + (k) <= (long)xv_n)
#define OIS(r, p, c) ((r).m_itv == xv_arr + (p) && (r).m_itb.m_index == (p) && (r).m_itb.p_container == (c))
#define OPRE1(k) __CPROVER_requires(OWORLD && OBJ(self) && OPAIRED(self) && OIN(self, k))
#define OMOVED(k) __CPROVER_ensures(OPOS(self) == (unsigned long)((long)__CPROVER_old(OPOS(self)) + (k)) && self->m_itv == xv_arr + OPOS(self) && OCON(self) == __CPROVER_old(OCON(self)) && RV == self) \
  __CPROVER_assigns(self->m_itv, self->m_itb.m_index)
#define XV_CONTRACT_oit__op_inc__v OPRE1(1) OMOVED(1)
#define XV_CONTRACT_oit__op_dec__v OPRE1(-1) OMOVED(-1)
#define XV_CONTRACT_oit__op_add_assign__l OPRE1(n) OMOVED(n)
#define XV_CONTRACT_oit__op_sub_assign__l OPRE1(-n) OMOVED(-n)
#define OPRE2(a, b) __CPROVER_requires(OWORLD && OBJ(a) && OBJ(b) && OPAIRED(a) && OPAIRED(b))
#define XV_CONTRACT_oit__op_sub__roit_c OPRE2(self, rhs) __CPROVER_ensures(RV == (long)OPOS(self) - (long)OPOS(rhs)) __CPROVER_assigns()
#define XV_CONTRACT_oit__op_eq__roit_c OPRE2(self, rhs) __CPROVER_ensures(RV == (OPOS(self) == OPOS(rhs) && OCON(self) == OCON(rhs))) __CPROVER_assigns()
#define XV_CONTRACT_oit__op_lt__roit_c OPRE2(self, rhs) __CPROVER_ensures(RV == (OPOS(self) < OPOS(rhs) && OCON(self) == OCON(rhs))) __CPROVER_assigns()
/* dereference: the proxy designates (values[k], flag bit k) */
#define BVALID(c) (OBJ(c) && (c)->m_size <= XV_MAXLEN && (c)->m_buffer.size == ((c)->m_size + 7) / 8 && __CPROVER_is_fresh((c)->m_buffer.data, (c)->m_buffer.size))
#define BDESIG(r, c, p) ((r).m_block == &(c)->m_buffer.data[(p) / 8] && (r).m_mask == (unsigned char)(1u << ((p) % 8)))
#define ODESIG(r, c, p) ((r).m_value == xv_arr + (p) && BDESIG((r).m_flag, c, p))
#define XV_CONTRACT_oit__op_mul__v_c __CPROVER_requires(OWORLD && OBJ(self) && OPAIRED(self) && BVALID(OCON(self)) && xv_n == OCON(self)->m_size && OPOS(self) < xv_n) \
  __CPROVER_ensures(ODESIG(RV, OCON(self), OPOS(self))) __CPROVER_assigns()
/* derived operators */
#define XV_CONTRACT_op_inc__roit_i __CPROVER_requires(OWORLD && OBJ(d) && OPAIRED(d) && OIN(d, 1)) \
  __CPROVER_ensures(OIS(RV, __CPROVER_old(OPOS(d)), __CPROVER_old(OCON(d))) && OIS(*d, __CPROVER_old(OPOS(d)) + 1, __CPROVER_old(OCON(d)))) __CPROVER_assigns(d->m_itv, d->m_itb.m_index)
#define XV_CONTRACT_op_dec__roit_i __CPROVER_requires(OWORLD && OBJ(d) && OPAIRED(d) && OIN(d, -1)) \
  __CPROVER_ensures(OIS(RV, __CPROVER_old(OPOS(d)), __CPROVER_old(OCON(d))) && OIS(*d, __CPROVER_old(OPOS(d)) - 1, __CPROVER_old(OCON(d)))) __CPROVER_assigns(d->m_itv, d->m_itb.m_index)
#define OSHIFT(k) __CPROVER_requires(OWORLD && OBJ(it) && OPAIRED(it) && OIN(it, k)) __CPROVER_ensures(OIS(RV, (unsigned long)((long)OPOS(it) + (k)), OCON(it))) __CPROVER_assigns()
#define XV_CONTRACT_op_add__roit_l OSHIFT(n)
#define XV_CONTRACT_op_add__l_roit OSHIFT(n)
#define XV_CONTRACT_op_sub__roit_l OSHIFT(-n)
#define XV_CONTRACT_op_ne__roit_roit OPRE2(lhs, rhs) __CPROVER_ensures(RV == !(OPOS(lhs) == OPOS(rhs) && OCON(lhs) == OCON(rhs))) __CPROVER_assigns()
#define OORD(op) OPRE2(lhs, rhs) __CPROVER_requires(OCON(lhs) == OCON(rhs)) __CPROVER_ensures(RV == (OPOS(lhs) op OPOS(rhs))) __CPROVER_assigns()
#define XV_CONTRACT_op_le__roit_roit OORD(<=)
#define XV_CONTRACT_op_ge__roit_roit OORD(>=)
#define XV_CONTRACT_op_gt__roit_roit OORD(>)
/* it[n] for the optional iterator is NOT under contract: the proof of the inlined chain (+, +=, bit +=, *) did not finish with the pointer
   checks on (10 min); it is under contract for the complex iterator below and for the bitset iterator (first unit) */

/* ---------------- complex iterator ---------------- */
#define CWORLD (xv_n <= XV_MAXLEN && __CPROVER_is_fresh(xv_arr, xv_n * sizeof(int)) && __CPROVER_is_fresh(xv_arr2, xv_n * sizeof(int)))
#define CPOS(it) ((long)((it)->m_it_real - xv_arr))
#define CPAIRED(it) (__CPROVER_pointer_in_range_dfcc(xv_arr, (it)->m_it_real, xv_arr + xv_n) && __CPROVER_POINTER_OFFSET((it)->m_it_real) % sizeof(int) == 0 && PEQ((it)->m_it_imag, xv_arr2 + CPOS(it)))
#define CIN(it, k) (KOK(k) && CPOS(it) + (k) >= 0 && CPOS(it) + (k) <= (long)xv_n)
#define CIS(r, p) ((r).m_it_real == xv_arr + (p) && (r).m_it_imag == xv_arr2 + (p))
#define CPRE1(k) __CPROVER_requires(CWORLD && OBJ(self) && CPAIRED(self) && CIN(self, k))
#define CMOVED(k) __CPROVER_ensures(self->m_it_real == __CPROVER_old(self->m_it_real) + (k) && self->m_it_imag == __CPROVER_old(self->m_it_imag) + (k) && RV == self) __CPROVER_assigns(self->m_it_real, self->m_it_imag)
#define XV_CONTRACT_cit__op_inc__v CPRE1(1) CMOVED(1)
#define XV_CONTRACT_cit__op_dec__v CPRE1(-1) CMOVED(-1)
#define XV_CONTRACT_cit__op_add_assign__l CPRE1(n) CMOVED(n)
#define XV_CONTRACT_cit__op_sub_assign__l CPRE1(-n) CMOVED(-n)
#define CPRE2(a, b) __CPROVER_requires(CWORLD && OBJ(a) && OBJ(b) && CPAIRED(a) && CPAIRED(b))
#define XV_CONTRACT_cit__op_sub__rcit_c CPRE2(self, rhs) __CPROVER_ensures(RV == CPOS(self) - CPOS(rhs)) __CPROVER_assigns()
#define XV_CONTRACT_cit__op_eq__rcit_c CPRE2(self, rhs) __CPROVER_ensures(RV == (CPOS(self) == CPOS(rhs))) __CPROVER_assigns()
#define XV_CONTRACT_cit__op_lt__rcit_c CPRE2(self, rhs) __CPROVER_ensures(RV == (CPOS(self) < CPOS(rhs))) __CPROVER_assigns()
#define CDESIG(r, p) ((r).m_real == xv_arr + (p) && (r).m_imag == xv_arr2 + (p))
#define XV_CONTRACT_cit__op_mul__v_c __CPROVER_requires(CWORLD && OBJ(self) && CPAIRED(self) && CPOS(self) < (long)xv_n) __CPROVER_ensures(CDESIG(RV, CPOS(self))) __CPROVER_assigns()
#define XV_CONTRACT_op_inc__rcit_i __CPROVER_requires(CWORLD && OBJ(d) && CPAIRED(d) && CIN(d, 1)) \
  __CPROVER_ensures(RV.m_it_real == __CPROVER_old(d->m_it_real) && RV.m_it_imag == __CPROVER_old(d->m_it_imag) && d->m_it_real == __CPROVER_old(d->m_it_real) + 1 && d->m_it_imag == __CPROVER_old(d->m_it_imag) + 1) __CPROVER_assigns(d->m_it_real, d->m_it_imag)
#define XV_CONTRACT_op_dec__rcit_i __CPROVER_requires(CWORLD && OBJ(d) && CPAIRED(d) && CIN(d, -1)) \
  __CPROVER_ensures(RV.m_it_real == __CPROVER_old(d->m_it_real) && RV.m_it_imag == __CPROVER_old(d->m_it_imag) && d->m_it_real == __CPROVER_old(d->m_it_real) - 1 && d->m_it_imag == __CPROVER_old(d->m_it_imag) - 1) __CPROVER_assigns(d->m_it_real, d->m_it_imag)
#define CSHIFT(k) __CPROVER_requires(CWORLD && OBJ(it) && CPAIRED(it) && CIN(it, k)) __CPROVER_ensures(CIS(RV, CPOS(it) + (k))) __CPROVER_assigns()
#define XV_CONTRACT_op_add__rcit_l CSHIFT(n)
#define XV_CONTRACT_op_add__l_rcit CSHIFT(n)
#define XV_CONTRACT_op_sub__rcit_l CSHIFT(-n)
#define XV_CONTRACT_op_ne__rcit_rcit CPRE2(lhs, rhs) __CPROVER_ensures(RV == (CPOS(lhs) != CPOS(rhs))) __CPROVER_assigns()
#define CORD(op) CPRE2(lhs, rhs) __CPROVER_ensures(RV == (CPOS(lhs) op CPOS(rhs))) __CPROVER_assigns()
#define XV_CONTRACT_op_le__rcit_rcit CORD(<=)
#define XV_CONTRACT_op_ge__rcit_rcit CORD(>=)
#define XV_CONTRACT_op_gt__rcit_rcit CORD(>)
#define CITP(s) ((struct S_cit*)(s))
#define XV_CONTRACT_rab_cit__op_index__l_c __CPROVER_requires(CWORLD && __CPROVER_is_fresh(self, sizeof(struct S_cit)) && CPAIRED(CITP(self)) && CIN(CITP(self), n) && CPOS(CITP(self)) + n < (long)xv_n) \
  __CPROVER_ensures(CDESIG(RV, CPOS(CITP(self)) + n)) __CPROVER_assigns()
