/* C07 contracts: closures, optional over reference closures, bitset element references.
   In the lowered code a reference closure stores a POINTER (xclosure_wrapper<T&>::m_wrappee, xoptional<T&, bool&>::m_value / m_flag)
   and an owning closure stores the value, so "aliases the lvalue / owns a copy" is a statement about that pointer / value:
   the pointer IS the address of the original object (no copy is made anywhere), the owned value equals the source and the
   source is untouched.  The wrappers xv_unit::<name> each fix one source-expression category; the library code is inlined. */
#define RV __CPROVER_return_value
#define OBJ(p) __CPROVER_is_fresh(p, sizeof(*(p)))
#define WREF(w) (OBJ(w) && __CPROVER_is_fresh((w)->m_wrappee, sizeof(int)))
#define PURE __CPROVER_assigns()
#define XV_BOOL_OK(x) (*(const unsigned char*)&(x) <= 1)

/* construction: lvalue -> the closure designates x itself; rvalue -> an independent copy */
#define XV_CONTRACT_w_mk_lv __CPROVER_requires(OBJ(x)) __CPROVER_ensures(RV.m_wrappee == x && *x == __CPROVER_old(*x)) PURE
#define XV_CONTRACT_w_mk_clv __CPROVER_requires(OBJ(x)) __CPROVER_ensures(RV.m_wrappee == x && *x == __CPROVER_old(*x)) PURE
#define XV_CONTRACT_w_mk_const __CPROVER_requires(OBJ(x)) __CPROVER_ensures(RV.m_wrappee == x && *x == __CPROVER_old(*x)) PURE
#define XV_CONTRACT_w_mk_rv __CPROVER_requires(OBJ(x)) __CPROVER_ensures(RV.m_wrappee == __CPROVER_old(*x)) PURE
#define XV_CONTRACT_w_mk_crv __CPROVER_requires(OBJ(x)) __CPROVER_ensures(RV.m_wrappee == __CPROVER_old(*x)) PURE
/* assignment through a reference closure writes the referent and never rebinds */
#define XV_CONTRACT_w_assign_v __CPROVER_requires(WREF(w) && OBJ(v)) __CPROVER_ensures(*w->m_wrappee == *v && w->m_wrappee == __CPROVER_old(w->m_wrappee)) __CPROVER_assigns(*w->m_wrappee)
#define XV_CONTRACT_w_assign_w __CPROVER_requires(WREF(a) && WREF(b)) \
  __CPROVER_ensures(*a->m_wrappee == *b->m_wrappee && *b->m_wrappee == __CPROVER_old(*b->m_wrappee) && a->m_wrappee == __CPROVER_old(a->m_wrappee) && b->m_wrappee == __CPROVER_old(b->m_wrappee)) \
  __CPROVER_assigns(*a->m_wrappee)
#define XV_CONTRACT_w_assign_owned __CPROVER_requires(OBJ(a) && OBJ(b)) __CPROVER_ensures(a->m_wrappee == b->m_wrappee && b->m_wrappee == __CPROVER_old(b->m_wrappee)) __CPROVER_assigns(*a)
/* a copy of a reference closure designates the same referent */
#define XV_CONTRACT_w_copy_w __CPROVER_requires(WREF(w)) __CPROVER_ensures(RV.m_wrappee == w->m_wrappee && *w->m_wrappee == __CPROVER_old(*w->m_wrappee)) PURE
/* swap exchanges the referent values, the closures keep designating their own referents */
#define SWAP_POST __CPROVER_ensures(*a->m_wrappee == __CPROVER_old(*b->m_wrappee) && *b->m_wrappee == __CPROVER_old(*a->m_wrappee) && a->m_wrappee == __CPROVER_old(a->m_wrappee) && b->m_wrappee == __CPROVER_old(b->m_wrappee)) \
  __CPROVER_assigns(*a->m_wrappee, *b->m_wrappee)
#define XV_CONTRACT_w_swap_w __CPROVER_requires(WREF(a) && WREF(b)) SWAP_POST
#define XV_CONTRACT_w_swap_free __CPROVER_requires(WREF(a) && WREF(b)) SWAP_POST
/* & / get() / conversion designate the referent (for an owning closure: the stored copy) */
#define XV_CONTRACT_w_addr_w __CPROVER_requires(WREF(w)) __CPROVER_ensures(RV == w->m_wrappee) PURE
#define XV_CONTRACT_w_addr_owned __CPROVER_requires(OBJ(w)) __CPROVER_ensures(RV == &w->m_wrappee) PURE
#define XV_CONTRACT_w_get_w __CPROVER_requires(WREF(w)) __CPROVER_ensures(RV == w->m_wrappee) PURE
#define XV_CONTRACT_w_conv_w __CPROVER_requires(WREF(w)) __CPROVER_ensures(RV == *w->m_wrappee) PURE
#define XV_CONTRACT_w_eq_w __CPROVER_requires(WREF(a) && WREF(b)) __CPROVER_ensures(RV == (*a->m_wrappee == *b->m_wrappee)) PURE

/* optional(x, flag): lvalues -> the optional designates x and flag themselves; rvalues -> it owns copies */
#define OREF(o) (OBJ(o) && __CPROVER_is_fresh((o)->m_value, sizeof(int)) && __CPROVER_is_fresh((o)->m_flag, sizeof(_Bool)) && XV_BOOL_OK(*(o)->m_flag))
#define XV_CONTRACT_w_opt_lv __CPROVER_requires(OBJ(x) && OBJ(f)) __CPROVER_ensures(RV.m_value == x && RV.m_flag == f && *x == __CPROVER_old(*x) && *f == __CPROVER_old(*f)) PURE
#define XV_CONTRACT_w_opt_rv __CPROVER_requires(OBJ(x) && OBJ(f) && XV_BOOL_OK(*f)) __CPROVER_ensures(RV.m_value == __CPROVER_old(*x) && RV.m_flag == __CPROVER_old(*f)) PURE
/* assigning an optional value to an optional of references writes both referents, never rebinds */
#define XV_CONTRACT_w_opt_assign __CPROVER_requires(OREF(o) && OBJ(v) && XV_BOOL_OK(v->m_flag)) \
  __CPROVER_ensures(*o->m_value == v->m_value && *o->m_flag == v->m_flag && o->m_value == __CPROVER_old(o->m_value) && o->m_flag == __CPROVER_old(o->m_flag)) __CPROVER_assigns(*o->m_value, *o->m_flag)
/* converting an optional of references to an optional of values copies and leaves the referents alone */
#define XV_CONTRACT_w_opt_copy_out __CPROVER_requires(OREF(o)) __CPROVER_ensures(RV.m_value == *o->m_value && RV.m_flag == *o->m_flag && *o->m_value == __CPROVER_old(*o->m_value) && *o->m_flag == __CPROVER_old(*o->m_flag)) PURE

/* bitset element references: a = b copies the VALUE of bit b into bit a (other bits of a's block unchanged, nothing rebinds) */
#define BREF(r) (OBJ(r) && __CPROVER_is_fresh((r)->m_block, 1) && xv_k < 8 && (r)->m_mask == (unsigned char)(1u << xv_k))
#define BREF2(r) (OBJ(r) && __CPROVER_is_fresh((r)->m_block, 1) && xv_m < 8 && (r)->m_mask == (unsigned char)(1u << xv_m))
#define BVAL(blk, msk) (((blk) & (msk)) != 0)
#define XV_CONTRACT_w_bref_assign __CPROVER_requires(BREF(a) && BREF2(b)) \
  __CPROVER_ensures(*a->m_block == (unsigned char)(BVAL(*b->m_block, b->m_mask) ? (__CPROVER_old(*a->m_block) | a->m_mask) : (__CPROVER_old(*a->m_block) & ~a->m_mask))) \
  __CPROVER_ensures(a->m_block == __CPROVER_old(a->m_block) && a->m_mask == __CPROVER_old(a->m_mask) && *b->m_block == __CPROVER_old(*b->m_block)) __CPROVER_assigns(*a->m_block)
#define XV_CONTRACT_w_bref_assign_bool __CPROVER_requires(BREF(a)) \
  __CPROVER_ensures(*a->m_block == (unsigned char)(v ? (__CPROVER_old(*a->m_block) | a->m_mask) : (__CPROVER_old(*a->m_block) & ~a->m_mask)) && a->m_block == __CPROVER_old(a->m_block)) __CPROVER_assigns(*a->m_block)

/* forward_sequence<R, A>(s) with decay_t<A> == R: the SAME object is forwarded (no copy), whatever the cv-qualification of the lvalue */
#define VEC_OK(v) (OBJ(v) && (v)->size <= XV_MAXBLK && __CPROVER_is_fresh((v)->data, (v)->size * sizeof(int)))
#define XV_CONTRACT_w_fwd_cv __CPROVER_requires(VEC_OK(v)) __CPROVER_ensures(RV == v) PURE
#define XV_CONTRACT_w_fwd_v __CPROVER_requires(VEC_OK(v)) __CPROVER_ensures(RV == v) PURE
#define XV_CONTRACT_w_fwd_ca __CPROVER_requires(OBJ(a)) __CPROVER_ensures(RV == a) PURE

/* converting construction of an owning optional from an RVALUE optional of references: the referents are not owned by the source,
   so they must be copied, not moved from (the instrumented payload P records a move in moved_from) */
#define XV_CONTRACT_w_take_ref __CPROVER_requires(OBJ(o) && __CPROVER_is_fresh(o->m_value, sizeof(*o->m_value)) && __CPROVER_is_fresh(o->m_flag, sizeof(_Bool)) && XV_BOOL_OK(*o->m_flag)) \
  __CPROVER_ensures(RV.m_value.v == o->m_value->v && RV.m_flag == *o->m_flag) \
  __CPROVER_ensures(o->m_value->moved_from == __CPROVER_old(o->m_value->moved_from) && o->m_value->v == __CPROVER_old(o->m_value->v) && *o->m_flag == __CPROVER_old(*o->m_flag)) \
  __CPROVER_assigns()
/* an owning rvalue optional gives its value up: the result holds it (the source may be pilfered) */
#define XV_CONTRACT_w_take_val __CPROVER_requires(OBJ(o) && XV_BOOL_OK(o->m_flag)) __CPROVER_ensures(RV.m_value.v == __CPROVER_old(o->m_value.v) && RV.m_flag == __CPROVER_old(o->m_flag)) __CPROVER_assigns(o->m_value.moved_from)

/* trait instantiations named explicitly (closure_type_t<S>, const_closure_type_t<S>) for S in {T&&, const T&&, T&, const T&}:
   an rvalue source is owned (the closure's object is NOT the source), an lvalue source is aliased */
#define XV_CONTRACT_w_trait_const_rv_aliases __CPROVER_requires(OBJ(x)) __CPROVER_ensures(RV == 0 && *x == __CPROVER_old(*x)) PURE
#define XV_CONTRACT_w_trait_rv_aliases __CPROVER_requires(OBJ(x)) __CPROVER_ensures(RV == 0) PURE
#define XV_CONTRACT_w_trait_const_lv_aliases __CPROVER_requires(OBJ(x)) __CPROVER_ensures(RV == 1 && *x == __CPROVER_old(*x)) PURE
#define XV_CONTRACT_w_trait_lv_aliases __CPROVER_requires(OBJ(x)) __CPROVER_ensures(RV == 1 && *x == __CPROVER_old(*x)) PURE
#define XV_CONTRACT_w_trait_clv_aliases __CPROVER_requires(OBJ(x)) __CPROVER_ensures(RV == 1 && *x == __CPROVER_old(*x)) PURE
/* get() on an rvalue closure: an owning closure hands out an independent object (it outlives the temporary closure),
   a reference closure hands out the referent */
#define XV_CONTRACT_w_get_rv_owned_aliases __CPROVER_requires(OBJ(w)) __CPROVER_ensures(RV == 0) PURE
#define XV_CONTRACT_w_get_rv_ref __CPROVER_requires(WREF(w)) __CPROVER_ensures(RV == w->m_wrappee) PURE
/* xtl::value / xtl::has_value on optionals of references (temporary or not) designate the referents, no copy */
#define XV_CONTRACT_w_val_rv __CPROVER_requires(OBJ(x) && OBJ(f)) __CPROVER_ensures(RV == x && *x == __CPROVER_old(*x)) PURE
#define XV_CONTRACT_w_hasval_rv __CPROVER_requires(OBJ(x) && OBJ(f)) __CPROVER_ensures(RV == f) PURE
#define XV_CONTRACT_w_val_lv __CPROVER_requires(OREF(o)) __CPROVER_ensures(RV == o->m_value) PURE
#define XV_CONTRACT_w_hasval_lv __CPROVER_requires(OREF(o)) __CPROVER_ensures(RV == o->m_flag) PURE
/* closure pointers: built from an lvalue they point at it; built from an rvalue they own a copy */
#define XV_CONTRACT_w_cp_lv __CPROVER_requires(OBJ(x)) __CPROVER_ensures(RV == x && *x == __CPROVER_old(*x)) PURE
#define XV_CONTRACT_w_ccp_lv __CPROVER_requires(OBJ(x)) __CPROVER_ensures(RV == x && *x == __CPROVER_old(*x)) PURE
#define XV_CONTRACT_w_cp_arrow __CPROVER_requires(OBJ(x)) __CPROVER_ensures(RV == x) PURE
#define XV_CONTRACT_w_cp_rv_aliases __CPROVER_requires(OBJ(x)) __CPROVER_ensures(RV == 0) PURE
#define XV_CONTRACT_w_cp_rv_val __CPROVER_requires(OBJ(x)) __CPROVER_ensures(RV == __CPROVER_old(*x)) PURE
