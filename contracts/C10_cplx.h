/* C10 contracts: xcomplex arithmetic on float (IEEE-754 binary32 with CBMC's bit-precise semantics; no uninterpreted arithmetic).
   The wrappers xv_unit::<name> of the instantiation unit name one overload each; the library functions they call (operators,
   xcomplex_multiplier<B>::mul/div, constructors, accessors) are inlined and proved in that context.
   "Mathematically correct to within rounding" is stated as: the result is the textbook formula evaluated in float arithmetic
   (no error analysis - listed as an assumption); the Annex G clauses are stated literally. */
#define RV __CPROVER_return_value
#ifdef XV_UF_FLOAT
#define FM(x, y) XV_FMUL32((x), (y))      /* unit cplx_uf: float * and / are uninterpreted in code and contract alike */
#define FD(x, y) XV_FDIV32((x), (y))
#define FA(x, y) XV_FADD32((x), (y))
#define FS(x, y) XV_FSUB32((x), (y))
#else
#define FA(x, y) ((x) + (y))
#define FS(x, y) ((x) - (y))
#define FM(x, y) ((x) * (y))
#define FD(x, y) ((x) / (y))
#endif
#define FEQ(x, y) ((x) == (y) || (XV_ISNAN_f(x) && XV_ISNAN_f(y)))       /* equal, or both NaN */
#define CVAL(p) __CPROVER_is_fresh(p, sizeof(*(p)))
#define CREF(p) (__CPROVER_is_fresh(p, sizeof(*(p))) && __CPROVER_is_fresh((p)->m_real, sizeof(float)) && __CPROVER_is_fresh((p)->m_imag, sizeof(float)))
#define INFZ(re, im) (XV_ISINF_f(re) || XV_ISINF_f(im))                  /* an infinity: an infinite part, even if the other part is NaN */
#define FINZ(re, im) (XV_ISFIN_f(re) && XV_ISFIN_f(im))
#define ZEROZ(re, im) ((re) == 0.0f && (im) == 0.0f)
#define NANNAN(re, im) (XV_ISNAN_f(re) && XV_ISNAN_f(im))
/* operands of the value-closure wrappers */
#define A (a->m_real)
#define B (a->m_imag)
#define C (b->m_real)
#define D (b->m_imag)
#define IS(re, im) (FEQ(RV.m_real, (re)) && FEQ(RV.m_imag, (im)))
#define VV __CPROVER_requires(CVAL(a) && CVAL(b))
#define PURE __CPROVER_assigns()

/* naive (ieee_compliant == false) arithmetic: the textbook formulas */
#define XV_CONTRACT_w_add_f VV __CPROVER_ensures(IS(A + C, B + D)) PURE
#define XV_CONTRACT_w_sub_f VV __CPROVER_ensures(IS(A - C, B - D)) PURE
#define XV_CONTRACT_w_mul_f VV __CPROVER_ensures(IS(FS(FM(A, C), FM(B, D)), FA(FM(A, D), FM(B, C)))) PURE
#define XV_CONTRACT_w_div_f VV __CPROVER_ensures(IS(FD(FA(FM(A, C), FM(B, D)), FA(FM(C, C), FM(D, D))), FD(FS(FM(B, C), FM(A, D)), FA(FM(C, C), FM(D, D))))) PURE
/* unary minus flips the sign of both parts, zeros included (as std::complex does) */
#define XV_CONTRACT_w_neg_f __CPROVER_requires(CVAL(a)) __CPROVER_ensures(IS(-A, -B) && (XV_ISNAN_f(A) || __CPROVER_signf(RV.m_real) != __CPROVER_signf(A)) && (XV_ISNAN_f(B) || __CPROVER_signf(RV.m_imag) != __CPROVER_signf(B))) PURE
#define XV_CONTRACT_w_eq_f VV __CPROVER_ensures(RV == (A == C && B == D)) PURE
#define XV_CONTRACT_w_ne_f VV __CPROVER_ensures(RV == !(A == C && B == D)) PURE
/* mixed real / complex forms */
#define VS __CPROVER_requires(CVAL(a) && __CPROVER_is_fresh(s, sizeof(float)))
#define XV_CONTRACT_w_mul_sf VS __CPROVER_ensures(IS(FM(A, *s), FM(B, *s))) PURE
/* s * a is computed as (s + 0i) * a: for operands without NaN/infinity that is (s*A - 0*B, s*B + 0*A); stated in that form */
#define XV_CONTRACT_w_smul_f VS __CPROVER_ensures(IS(FS(FM(*s, A), FM(0.0f, B)), FA(FM(*s, B), FM(0.0f, A)))) PURE
#define XV_CONTRACT_w_div_sf VS __CPROVER_ensures(IS(FD(A, *s), FD(B, *s))) PURE
#define XV_CONTRACT_w_add_sf VS __CPROVER_ensures(IS(A + *s, B)) PURE
#define XV_CONTRACT_w_sub_sf VS __CPROVER_ensures(IS(A - *s, B)) PURE
#define XV_CONTRACT_w_sadd_f VS __CPROVER_ensures(IS(*s + A, B)) PURE
#define XV_CONTRACT_w_ssub_f VS __CPROVER_ensures(IS(*s - A, 0.0f - B)) PURE
/* s / a is the complex quotient (s + 0i) / a: textbook formula with dividend (s, 0) */
#define XV_CONTRACT_w_sdiv_f VS __CPROVER_ensures(IS(FD(FA(FM(*s, A), FM(0.0f, B)), FA(FM(A, A), FM(B, B))), FD(FS(FM(0.0f, A), FM(*s, B)), FA(FM(A, A), FM(B, B))))) PURE
/* a / s in ieee mode divides both parts by s */
#define XV_CONTRACT_w_div_st VS __CPROVER_ensures(IS(FD(A, *s), FD(B, *s))) PURE
/* reference closures: same results as value closures, operands read through the referents */
#define RA (*a->m_real)
#define RB (*a->m_imag)
#define RC (*b->m_real)
#define RD (*b->m_imag)
#define XV_CONTRACT_w_mul_rf __CPROVER_requires(CREF(a) && CREF(b)) __CPROVER_ensures(IS(FS(FM(RA, RC), FM(RB, RD)), FA(FM(RA, RD), FM(RB, RC)))) PURE
#define XV_CONTRACT_w_add_rf __CPROVER_requires(CREF(a) && CREF(b)) __CPROVER_ensures(IS(RA + RC, RB + RD)) PURE
/* compound assignment: value target; reference-closure target writes the referents and never rebinds */
#define XV_CONTRACT_w_muleq_f VV __CPROVER_ensures(FEQ(A, FS(FM(__CPROVER_old(A), C), FM(__CPROVER_old(B), D))) && FEQ(B, FA(FM(__CPROVER_old(A), D), FM(__CPROVER_old(B), C)))) __CPROVER_assigns(*a)
#define XV_CONTRACT_w_muleq_r __CPROVER_requires(CREF(a) && CVAL(b)) \
  __CPROVER_ensures(FEQ(RA, FS(FM(__CPROVER_old(RA), C), FM(__CPROVER_old(RB), D))) && FEQ(RB, FA(FM(__CPROVER_old(RA), D), FM(__CPROVER_old(RB), C)))) \
  __CPROVER_ensures(a->m_real == __CPROVER_old(a->m_real) && a->m_imag == __CPROVER_old(a->m_imag)) __CPROVER_assigns(*a->m_real, *a->m_imag)
#define XV_CONTRACT_w_addeq_r __CPROVER_requires(CREF(a) && CVAL(b)) __CPROVER_ensures(FEQ(RA, __CPROVER_old(RA) + C) && FEQ(RB, __CPROVER_old(RB) + D)) \
  __CPROVER_ensures(a->m_real == __CPROVER_old(a->m_real) && a->m_imag == __CPROVER_old(a->m_imag)) __CPROVER_assigns(*a->m_real, *a->m_imag)

/* ieee_compliant == true, multiplication (C99 G.5.1):
   M0 when the naive product is not NaN+NaN i it is returned; M1/M2 an infinity times a non-zero finite value or an infinity is an
   infinity (either order); M3 finite operands never give NaN+NaN i */
#ifdef XV_UF_FLOAT
#define MUL_T_POST(a_, b_, c_, d_) \
  __CPROVER_ensures(!NANNAN(FS(FM(a_, c_), FM(b_, d_)), FA(FM(a_, d_), FM(b_, c_))) ==> IS(FS(FM(a_, c_), FM(b_, d_)), FA(FM(a_, d_), FM(b_, c_))))
#else
#define MUL_T_POST(a_, b_, c_, d_) \
  __CPROVER_ensures((INFZ(a_, b_) && (INFZ(c_, d_) || (FINZ(c_, d_) && !ZEROZ(c_, d_)))) ==> INFZ(RV.m_real, RV.m_imag)) \
  __CPROVER_ensures((INFZ(c_, d_) && (INFZ(a_, b_) || (FINZ(a_, b_) && !ZEROZ(a_, b_)))) ==> INFZ(RV.m_real, RV.m_imag)) \
  __CPROVER_ensures((FINZ(a_, b_) && FINZ(c_, d_)) ==> !NANNAN(RV.m_real, RV.m_imag))
#endif
#define XV_CONTRACT_w_mul_t VV MUL_T_POST(A, B, C, D) PURE
#define XV_CONTRACT_w_mul_rt __CPROVER_requires(CREF(a) && CVAL(b)) MUL_T_POST(RA, RB, C, D) PURE

/* ieee_compliant == true, division (C99 G.5.1):
   D1 an infinity divided by a finite value is an infinity; D2 a finite value divided by an infinity is a zero;
   D3 a non-zero finite value or an infinity divided by a zero is an infinity; D4 finite operands never give NaN+NaN i except 0/0;
   D5 (scaling) a divisor +-2^k + 0i of ANY normal magnitude: the quotient is exactly (a/c, b/c) - each part rounded once */
#define POW2(x) (XV_ISFIN_f(x) && (x) != 0.0f && xv_scalbnf(1.0f, (int)xv_logbf(x)) == fabsf(x) && fabsf(x) >= 0x1p-126f)
#define DIV_T_POST \
  __CPROVER_ensures((INFZ(A, B) && FINZ(C, D)) ==> INFZ(RV.m_real, RV.m_imag)) \
  __CPROVER_ensures((FINZ(A, B) && INFZ(C, D) && XV_ISFIN_f(fabsf(A) + fabsf(B))) ==> ZEROZ(RV.m_real, RV.m_imag)) \
  /* the same clause for dividends so large that |a| + |b| overflows: recorded finding (known_findings.txt), e.g. (3.402812e38 + 8.965142e33 i) / (inf - inf i) = (0, NaN) */ \
  __CPROVER_ensures((FINZ(A, B) && INFZ(C, D) && !XV_ISFIN_f(fabsf(A) + fabsf(B))) ==> ZEROZ(RV.m_real, RV.m_imag)) \
  __CPROVER_ensures(((INFZ(A, B) || (FINZ(A, B) && !ZEROZ(A, B))) && ZEROZ(C, D)) ==> INFZ(RV.m_real, RV.m_imag)) \
  __CPROVER_ensures((FINZ(A, B) && FINZ(C, D) && !ZEROZ(C, D)) ==> !NANNAN(RV.m_real, RV.m_imag))
#ifdef XV_D5
#define XV_CONTRACT_w_div_t VV __CPROVER_ensures((POW2(C) && D == 0.0f && FINZ(A, B)) ==> IS(A / C, B / C)) PURE
#else
#define XV_CONTRACT_w_div_t VV DIV_T_POST PURE
#endif
#define XV_CONTRACT_w_diveq_t VV __CPROVER_ensures((INFZ(__CPROVER_old(A), __CPROVER_old(B)) && FINZ(C, D)) ==> INFZ(A, B)) \
  __CPROVER_ensures((FINZ(__CPROVER_old(A), __CPROVER_old(B)) && INFZ(C, D) && XV_ISFIN_f(fabsf(__CPROVER_old(A)) + fabsf(__CPROVER_old(B)))) ==> ZEROZ(A, B)) __CPROVER_assigns(*a)

/* real / complex in ieee mode: the Annex G clauses and the scaling clause for the dividend (s, 0) and the divisor a */
#define XV_CONTRACT_w_sdiv_t VS \
  __CPROVER_ensures((XV_ISINF_f(*s) && FINZ(A, B)) ==> INFZ(RV.m_real, RV.m_imag)) \
  __CPROVER_ensures((XV_ISFIN_f(*s) && INFZ(A, B)) ==> ZEROZ(RV.m_real, RV.m_imag)) \
  __CPROVER_ensures(((XV_ISINF_f(*s) || (XV_ISFIN_f(*s) && *s != 0.0f)) && ZEROZ(A, B)) ==> INFZ(RV.m_real, RV.m_imag)) \
  __CPROVER_ensures((XV_ISFIN_f(*s) && FINZ(A, B) && !ZEROZ(A, B)) ==> !NANNAN(RV.m_real, RV.m_imag)) \
  __CPROVER_ensures((POW2(A) && B == 0.0f && XV_ISFIN_f(*s)) ==> FEQ(RV.m_real, *s / A)) PURE
