/* C11 contracts, complex family: xcomplex_vector<int, false> and its base xcomplex_sequence<std::vector<int>, false>.
   Abstract view: n = size(); element g = (real[g], imag[g]).  LOCKSTEP invariant CS_WF: both vectors valid and of equal length.
   (int components: the container code never does arithmetic on them, so the element type only has to be comparable bit for bit.)
   Ghosts: xv_g arbitrary index; xv_a5 / xv_a6 = old real / imaginary part at g; xv_k witness of inequality. */
#define RV __CPROVER_return_value
#define OBJ(s) __CPROVER_is_fresh(s, sizeof(*(s)))
#define VVALID(v) ((v).size <= XV_MAXBLK && __CPROVER_is_fresh((v).data, (v).size * sizeof(int)))
#define CS_WF(s) (VVALID((s)->m_real) && VVALID((s)->m_imag) && (s)->m_real.size == (s)->m_imag.size)
#define CS_RE(s, k) ((s)->m_real.data[k])
#define CS_IM(s, k) ((s)->m_imag.data[k])
#define CS_ALL(s, n, re, im) ((s)->m_real.size == (n) && (s)->m_imag.size == (n) && (xv_g < (n) ==> (CS_RE(s, xv_g) == (re) && CS_IM(s, xv_g) == (im))))
#define CX_VAL(v) __CPROVER_is_fresh(v, sizeof(*(v)))
#define CX_REF(v) (__CPROVER_is_fresh(v, sizeof(*(v))) && __CPROVER_is_fresh((v)->m_real, sizeof(int)) && __CPROVER_is_fresh((v)->m_imag, sizeof(int)))
#define CV_B(s) (&(s)->__base_0)

/* constructors */
#define XV_CONTRACT_cs__ctor__ul __CPROVER_requires(OBJ(self) && s <= XV_MAXBLK) __CPROVER_ensures(CS_ALL(self, s, 0, 0)) __CPROVER_assigns(*self)
#define XV_CONTRACT_cs__ctor__ul_rxcomplex_6fdb5 __CPROVER_requires(OBJ(self) && CX_VAL(v) && s <= XV_MAXBLK) __CPROVER_ensures(CS_ALL(self, s, v->m_real, v->m_imag)) __CPROVER_assigns(*self)
#define XV_CONTRACT_cs__ctor__T_ri_ri_0__ul_rxcomplex_1e69e __CPROVER_requires(OBJ(self) && CX_REF(v) && s <= XV_MAXBLK) __CPROVER_ensures(CS_ALL(self, s, *v->m_real, *v->m_imag)) __CPROVER_assigns(*self)
#define XV_CONTRACT_cv__ctor__ul __CPROVER_requires(OBJ(self) && s <= XV_MAXBLK) __CPROVER_ensures(CS_ALL(CV_B(self), s, 0, 0)) __CPROVER_assigns(*self)
#define XV_CONTRACT_cv__ctor__ul_rxcomplex_6fdb5 __CPROVER_requires(OBJ(self) && CX_VAL(v) && s <= XV_MAXBLK) __CPROVER_ensures(CS_ALL(CV_B(self), s, v->m_real, v->m_imag)) __CPROVER_assigns(*self)
#define XV_CONTRACT_cv__ctor__T_ri_ri_0__ul_rxcomplex_1e69e __CPROVER_requires(OBJ(self) && CX_REF(v) && s <= XV_MAXBLK) __CPROVER_ensures(CS_ALL(CV_B(self), s, *v->m_real, *v->m_imag)) __CPROVER_assigns(*self)

/* resize: existing elements preserved, new ones zero / the given complex value */
#define CV_RESIZE_PRE __CPROVER_requires(OBJ(self) && CS_WF(CV_B(self)) && s <= XV_MAXBLK) \
  __CPROVER_requires(xv_g < CV_B(self)->m_real.size ==> (xv_a5 == (unsigned long)(long)CS_RE(CV_B(self), xv_g) && xv_a6 == (unsigned long)(long)CS_IM(CV_B(self), xv_g)))
#define CV_RESIZE_POST(re, im) __CPROVER_ensures(CV_B(self)->m_real.size == s && CV_B(self)->m_imag.size == s) \
  __CPROVER_ensures(xv_g < s ==> (xv_g < __CPROVER_old(CV_B(self)->m_real.size) ? (CS_RE(CV_B(self), xv_g) == (int)(long)xv_a5 && CS_IM(CV_B(self), xv_g) == (int)(long)xv_a6) \
                                                                              : (CS_RE(CV_B(self), xv_g) == (re) && CS_IM(CV_B(self), xv_g) == (im)))) \
  __CPROVER_assigns(*self)
#define XV_CONTRACT_cv__resize__ul CV_RESIZE_PRE CV_RESIZE_POST(0, 0)
#define XV_CONTRACT_cv__resize__ul_rxcomplex_6fdb5 CV_RESIZE_PRE __CPROVER_requires(CX_VAL(v)) CV_RESIZE_POST(v->m_real, v->m_imag)
#define XV_CONTRACT_cv__resize__T_ri_ri_0__ul_rxcomplex_1e69e CV_RESIZE_PRE __CPROVER_requires(CX_REF(v)) CV_RESIZE_POST(*v->m_real, *v->m_imag)

/* element access: the proxy designates exactly the pair (real[i], imag[i]); at() throws for i >= size() */
#define CS_REF(r, s, i) ((r).m_real == &(s)->m_real.data[i] && (r).m_imag == &(s)->m_imag.data[i])
#define CS_ACC_PRE(extra) __CPROVER_requires(OBJ(self) && CS_WF(self) && (extra))
#define XV_CONTRACT_cs__at__ul CS_ACC_PRE(xv_exc == 0) __CPROVER_ensures((xv_exc == XV_EXC_out_of_range) == (i >= self->m_real.size) && (xv_exc == 0 || xv_exc == XV_EXC_out_of_range)) \
  __CPROVER_ensures(xv_exc == 0 ==> CS_REF(RV, self, i)) __CPROVER_assigns(xv_exc)
#define XV_CONTRACT_cs__at__ul_c XV_CONTRACT_cs__at__ul
#define XV_CONTRACT_cs__op_index__ul CS_ACC_PRE(i < self->m_real.size) __CPROVER_ensures(CS_REF(RV, self, i)) __CPROVER_assigns()
#define XV_CONTRACT_cs__op_index__ul_c XV_CONTRACT_cs__op_index__ul
#define XV_CONTRACT_cs__front__v CS_ACC_PRE(self->m_real.size > 0) __CPROVER_ensures(CS_REF(RV, self, 0ul)) __CPROVER_assigns()
#define XV_CONTRACT_cs__front__v_c XV_CONTRACT_cs__front__v
#define XV_CONTRACT_cs__back__v CS_ACC_PRE(self->m_real.size > 0) __CPROVER_ensures(CS_REF(RV, self, self->m_real.size - 1)) __CPROVER_assigns()
#define XV_CONTRACT_cs__back__v_c XV_CONTRACT_cs__back__v
#define XV_CONTRACT_cs__size__v_c CS_ACC_PRE(1) __CPROVER_ensures(RV == self->m_real.size && RV == self->m_imag.size) __CPROVER_assigns()
#define XV_CONTRACT_cs__empty__v_c CS_ACC_PRE(1) __CPROVER_ensures(RV == (self->m_real.size == 0)) __CPROVER_assigns()

/* == holds exactly when sizes, real parts and imaginary parts all match */
#define CS_EQ_PRE __CPROVER_requires(OBJ(lhs) && OBJ(rhs) && CS_WF(lhs) && CS_WF(rhs))
#define CS_ALLEQ (lhs->m_real.size == rhs->m_real.size && (xv_g < lhs->m_real.size ==> (CS_RE(lhs, xv_g) == CS_RE(rhs, xv_g) && CS_IM(lhs, xv_g) == CS_IM(rhs, xv_g))))
#define CS_DIFF (lhs->m_real.size != rhs->m_real.size || (xv_k < lhs->m_real.size && (CS_RE(lhs, xv_k) != CS_RE(rhs, xv_k) || CS_IM(lhs, xv_k) != CS_IM(rhs, xv_k))))
#define XV_CONTRACT_cs_op_eq CS_EQ_PRE __CPROVER_ensures(RV ==> CS_ALLEQ) __CPROVER_ensures(!RV ==> CS_DIFF) __CPROVER_assigns(xv_k)
#define XV_CONTRACT_cs_op_ne CS_EQ_PRE __CPROVER_ensures(!RV ==> CS_ALLEQ) __CPROVER_ensures(RV ==> CS_DIFF) __CPROVER_assigns(xv_k)
