/* C08: IEEE 754 binary16 spec functions (written from the standard, loop-free C, integer arithmetic only) and the
   contracts of the half kernels against them.  Rounding mode: round-to-nearest-even (the library default).
   A finite half h = (s, e, m) has the value (-1)^s * M * 2^E with  M = e ? m|0x400 : m,  E = (e ? e : 1) - 25.
   NaN results: the property says NaN-to-NaN / invalid -> NaN; payloads are not specified, so the spec is "is a NaN". */
typedef unsigned long long xh_u64;
typedef long long xh_i64;
#define XH_SIGN(h) ((h) & 0x8000u)
#define XH_EXP(h) (((h) >> 10) & 0x1Fu)
#define XH_MAN(h) ((h) & 0x3FFu)
#define XH_ABS(h) ((h) & 0x7FFFu)
#define XH_ISNAN(h) (XH_ABS(h) > 0x7C00u)
#define XH_ISINF(h) (XH_ABS(h) == 0x7C00u)
#define XH_ISZERO(h) (XH_ABS(h) == 0)
#define XH_FINITE(h) (XH_ABS(h) < 0x7C00u)
#define XH_M(h) ((xh_u64)(XH_EXP(h) ? (XH_MAN(h) | 0x400u) : XH_MAN(h)))
#define XH_E(h) ((int)(XH_EXP(h) ? XH_EXP(h) : 1u) - 25)

static inline int xh_msb(xh_u64 v)      /* index of the most significant set bit of v != 0 */
{
  int n = 0;
  if (v >> 32) { n += 32; v >>= 32; }
  if (v >> 16) { n += 16; v >>= 16; }
  if (v >> 8) { n += 8; v >>= 8; }
  if (v >> 4) { n += 4; v >>= 4; }
  if (v >> 2) { n += 2; v >>= 2; }
  if (v >> 1) { n += 1; }
  return n;
}

/* correctly rounded (nearest, ties to even) binary16 of  (M + f) * 2^E  where f in [0,1) is nonzero iff sticky;
   overflow -> infinity, gradual underflow.  Precondition of use: M < 2^62, and when sticky is set M carries at least two
   bits below the result's unit in the last place (callers guarantee it by construction). */
static inline unsigned xh_round(unsigned sign, xh_u64 M, int E, int sticky)
{
  if (M == 0)
    return sign;                               /* callers pass sticky only with M != 0 */
  int q = xh_msb(M) + E;                       /* floor(log2 |value|) */
  if (q > 15)
    return sign | 0x7C00u;
  int ulp = q >= -14 ? q - 10 : -24;           /* exponent of the unit in the last place of the result */
  int sh = ulp - E;                            /* number of bits of M below that unit */
  xh_u64 kept;
  unsigned up = 0;
  if (sh <= 0)
    kept = M << (-sh);                         /* exact */
  else if (sh >= 63)
    kept = 0;                                  /* |value| < ulp / 2: rounds to zero */
  else
  {
    xh_u64 rem = M & (((xh_u64)1 << sh) - 1), half_ = (xh_u64)1 << (sh - 1);
    kept = M >> sh;
    up = rem > half_ || (rem == half_ && (sticky || (kept & 1)));
  }
  unsigned r = q >= -14 ? (((unsigned)(q + 15) << 10) + ((unsigned)kept - 0x400u) + up) : ((unsigned)kept + up);
  return sign | r;                             /* a carry out of the mantissa moves to the next exponent, up to infinity 0x7C00 */
}

/* ---- conversions ---- */
static inline unsigned xh_spec_from_float_bits(unsigned f)
{
  unsigned sign = (f >> 16) & 0x8000u, e = (f >> 23) & 0xFFu, m = f & 0x7FFFFFu;
  if (e == 0xFF)
    return m ? (sign | 0x7E00u) : (sign | 0x7C00u);          /* representative NaN; compared with XH_SAME */
  if (e == 0)
    return xh_round(sign, m, -149, 0);
  return xh_round(sign, (xh_u64)(m | 0x800000u), (int)e - 150, 0);
}
static inline unsigned xh_spec_from_double_bits(xh_u64 d)
{
  unsigned sign = (unsigned)(d >> 48) & 0x8000u, e = (unsigned)(d >> 52) & 0x7FFu;
  xh_u64 m = d & 0xFFFFFFFFFFFFFull;
  if (e == 0x7FF)
    return m ? (sign | 0x7E00u) : (sign | 0x7C00u);
  if (e == 0)
    return sign;                                              /* below 2^-1022: far below half the smallest subnormal */
  /* 53 significant bits do not fit xh_round's M < 2^62 after shifting?  they do: M < 2^53 */
  return xh_round(sign, m | ((xh_u64)1 << 52), (int)e - 1075, 0);
}
/* results agree: same bits, or both NaN */
#define XH_SAME(a, b) ((XH_ISNAN(a) && XH_ISNAN(b)) || ((a) & 0xFFFFu) == ((b) & 0xFFFFu))

/* exact value of a finite half as a float (float has 24 significant bits and exponents down to -149: exact) */
static inline float xh_pow2f(int e) { union { unsigned u; float f; } c; c.u = (unsigned)(e + 127) << 23; return c.f; }   /* -126 <= e <= 127 */
static inline float xh_value_f(unsigned h)
{
  float v = (float)(unsigned)XH_M(h) * xh_pow2f(XH_E(h));
  return XH_SIGN(h) ? -v : v;
}
static inline unsigned xh_fbits(float f) { union { unsigned u; float f; } c; c.f = f; return c.u; }
static inline xh_u64 xh_dbits(double d) { union { xh_u64 u; double d; } c; c.d = d; return c.u; }

/* ---- arithmetic ---- */
static inline unsigned xh_spec_add(unsigned x, unsigned y)
{
  if (XH_ISNAN(x) || XH_ISNAN(y))
    return 0x7E00u;
  if (XH_ISINF(x))
    return (XH_ISINF(y) && XH_SIGN(x) != XH_SIGN(y)) ? 0x7E00u : x;
  if (XH_ISINF(y))
    return y;
  int ex = XH_E(x), ey = XH_E(y), emin = ex < ey ? ex : ey;
  xh_i64 sx = (xh_i64)(XH_M(x) << (ex - emin)), sy = (xh_i64)(XH_M(y) << (ey - emin));   /* shifts <= 29, values < 2^41 */
  xh_i64 s = (XH_SIGN(x) ? -sx : sx) + (XH_SIGN(y) ? -sy : sy);
  if (s == 0)
    return XH_SIGN(x) & XH_SIGN(y);            /* exact zero: +0, except (-0) + (-0) = -0 */
  return s < 0 ? xh_round(0x8000u, (xh_u64)(-s), emin, 0) : xh_round(0, (xh_u64)s, emin, 0);
}
#define xh_spec_sub(x, y) xh_spec_add((x), (y) ^ 0x8000u)
static inline unsigned xh_spec_mul(unsigned x, unsigned y)
{
  unsigned sign = (x ^ y) & 0x8000u;
  if (XH_ISNAN(x) || XH_ISNAN(y))
    return 0x7E00u;
  if (XH_ISINF(x) || XH_ISINF(y))
    return (XH_ISZERO(x) || XH_ISZERO(y)) ? 0x7E00u : (sign | 0x7C00u);
  return xh_round(sign, XH_M(x) * XH_M(y), XH_E(x) + XH_E(y), 0);
}
static inline unsigned xh_spec_div(unsigned x, unsigned y)
{
  unsigned sign = (x ^ y) & 0x8000u;
  if (XH_ISNAN(x) || XH_ISNAN(y))
    return 0x7E00u;
  if (XH_ISINF(x))
    return XH_ISINF(y) ? 0x7E00u : (sign | 0x7C00u);
  if (XH_ISINF(y))
    return sign;
  if (XH_ISZERO(y))
    return XH_ISZERO(x) ? 0x7E00u : (sign | 0x7C00u);
  if (XH_ISZERO(x))
    return sign;
  /* 26 extra quotient bits: the quotient has at least 15 bits, the result's unit is at least 4 bits above its lsb */
  unsigned n = (unsigned)XH_M(x), d = (unsigned)XH_M(y);
  xh_u64 num = (xh_u64)n << 26;
  xh_u64 q = num / d, r = num % d;
  return xh_round(sign, q, XH_E(x) - XH_E(y) - 26, r != 0);
}
/* r is the correctly rounded square root of the finite positive half x: (2Mr - 1)^2 * 2^(2Er - 2) < Mx * 2^Ex < (2Mr + 1)^2 * 2^(2Er - 2)
   (a tie is impossible: an odd number squared has more significant bits than Mx) */
static inline int xh_is_sqrt(unsigned x, unsigned r)
{
  if (!XH_FINITE(r) || XH_SIGN(r) || XH_ISZERO(r))
    return 0;
  xh_u64 lo = 2 * XH_M(r) - 1, hi = 2 * XH_M(r) + 1, X = XH_M(x);
  int d = XH_E(x) - (2 * XH_E(r) - 2);         /* X * 2^d  versus  lo^2, hi^2 */
  if (d >= 40 || d <= -40)
    return 0;
  xh_u64 L = lo * lo, H = hi * hi;
  if (d >= 0)
    X <<= d;
  else { L <<= -d; H <<= -d; }
  return L < X && X < H;
}
#define RVD (__CPROVER_return_value.data_)
#define RV __CPROVER_return_value

/* ---------------- contracts ---------------- */
#define XV_CONTRACT_half_float__float2half_impl__T_1__f_xv_empty \
  __CPROVER_ensures(XH_SAME(RV, xh_spec_from_float_bits(xh_fbits(value)))) __CPROVER_ensures(RV <= 0xFFFFu) __CPROVER_assigns()
#define XV_CONTRACT_half_float__float2half_impl__T_1__d_xv_empty \
  __CPROVER_ensures(XH_SAME(RV, xh_spec_from_double_bits(xh_dbits(value)))) __CPROVER_ensures(RV <= 0xFFFFu) __CPROVER_assigns()
/* half -> float / double is exact; NaN -> NaN, infinities keep their sign */
#define XV_CONTRACT_half_float__half2float_impl__u_f_xv_empty \
  __CPROVER_requires(value <= 0xFFFFu) \
  __CPROVER_ensures(XH_FINITE(value) ==> xh_fbits(RV) == xh_fbits(xh_value_f(value))) \
  __CPROVER_ensures(XH_ISINF(value) ==> xh_fbits(RV) == (((unsigned)XH_SIGN(value) << 16) | 0x7F800000u)) \
  __CPROVER_ensures(XH_ISNAN(value) ==> (xh_fbits(RV) & 0x7FFFFFFFu) > 0x7F800000u) __CPROVER_assigns()
#define XV_CONTRACT_half_float__half2float_impl__u_d_xv_empty \
  __CPROVER_requires(value <= 0xFFFFu) \
  __CPROVER_ensures(XH_FINITE(value) ==> xh_dbits(RV) == xh_dbits((double)xh_value_f(value))) \
  __CPROVER_ensures(XH_ISINF(value) ==> xh_dbits(RV) == (((xh_u64)XH_SIGN(value) << 48) | 0x7FF0000000000000ull)) \
  __CPROVER_ensures(XH_ISNAN(value) ==> (xh_dbits(RV) & 0x7FFFFFFFFFFFFFFFull) > 0x7FF0000000000000ull) __CPROVER_assigns()

#ifdef XV_CASE_EX
#define XH_CASE __CPROVER_requires(XH_EXP(x.data_) == XV_CASE_EX)
#elif defined(XV_CASE_ZERO_OR_SPECIAL)
/* quick-tier slice of fma: at least one operand is a zero, an infinity or a NaN (the special-value ladder and signed-zero rules) */
#define XH_SPEC(h) (XH_ISZERO(h) || XH_EXP(h) == 31)
#define XH_CASE __CPROVER_requires(XH_SPEC(x.data_) || XH_SPEC(y.data_) || XH_SPEC(z.data_))
#else
#define XH_CASE
#endif
#define XV_CONTRACT_half_float__op_add__half_half XH_CASE __CPROVER_ensures(XH_SAME(RVD, xh_spec_add(x.data_, y.data_))) __CPROVER_assigns()
#define XV_CONTRACT_half_float__op_sub__half_half XH_CASE __CPROVER_ensures(XH_SAME(RVD, xh_spec_sub(x.data_, y.data_))) __CPROVER_assigns()
/* sqrt: Annex F specials, otherwise the correctly rounded root */
#define XV_CONTRACT_half_float__sqrt__half \
  __CPROVER_ensures(XH_ISNAN(arg.data_) ==> XH_ISNAN(RVD)) \
  __CPROVER_ensures(XH_ISZERO(arg.data_) ==> RVD == arg.data_) \
  __CPROVER_ensures((XH_SIGN(arg.data_) && !XH_ISZERO(arg.data_) && !XH_ISNAN(arg.data_)) ==> XH_ISNAN(RVD)) \
  __CPROVER_ensures(arg.data_ == 0x7C00u ==> RVD == 0x7C00u) \
  __CPROVER_ensures((!XH_SIGN(arg.data_) && XH_FINITE(arg.data_) && !XH_ISZERO(arg.data_)) ==> xh_is_sqrt(arg.data_, RVD)) __CPROVER_assigns()

/* comparisons: agree with the float comparison of the exactly converted values (NaN compares unordered) */
#define XH_F(h) xh_value_f(h)
#define XH_ORD(x, y) (!XH_ISNAN(x) && !XH_ISNAN(y))
#define XH_INFV(h) (XH_SIGN(h) ? -__builtin_inff() : __builtin_inff())
#define XH_VAL(h) (XH_ISINF(h) ? XH_INFV(h) : XH_F(h))
#define XH_CMP(OP, neg) __CPROVER_ensures(RV == (XH_ORD(x.data_, y.data_) ? (XH_VAL(x.data_) OP XH_VAL(y.data_)) : neg)) __CPROVER_assigns()
#define XV_CONTRACT_half_float__op_eq__half_half XH_CMP(==, 0)
#define XV_CONTRACT_half_float__op_ne__half_half XH_CMP(!=, 1)
#define XV_CONTRACT_half_float__op_lt__half_half XH_CMP(<, 0)
#define XV_CONTRACT_half_float__op_gt__half_half XH_CMP(>, 0)
#define XV_CONTRACT_half_float__op_le__half_half XH_CMP(<=, 0)
#define XV_CONTRACT_half_float__op_ge__half_half XH_CMP(>=, 0)
/* classification, sign operations */
#define XV_CONTRACT_half_float__isfinite__half __CPROVER_ensures(RV == XH_FINITE(arg.data_)) __CPROVER_assigns()
#define XV_CONTRACT_half_float__isinf__half __CPROVER_ensures(RV == XH_ISINF(arg.data_)) __CPROVER_assigns()
#define XV_CONTRACT_half_float__isnan__half __CPROVER_ensures(RV == XH_ISNAN(arg.data_)) __CPROVER_assigns()
#define XV_CONTRACT_half_float__isnormal__half __CPROVER_ensures(RV == (XH_EXP(arg.data_) != 0 && XH_EXP(arg.data_) != 31)) __CPROVER_assigns()
#define XV_CONTRACT_half_float__signbit__half __CPROVER_ensures(RV == (XH_SIGN(arg.data_) != 0)) __CPROVER_assigns()
/* FP_NAN 0, FP_INFINITE 1, FP_ZERO 2, FP_SUBNORMAL 3, FP_NORMAL 4 (glibc) */
#define XV_CONTRACT_half_float__fpclassify__half \
  __CPROVER_ensures(RV == (XH_ISNAN(arg.data_) ? 0 : XH_ISINF(arg.data_) ? 1 : XH_ISZERO(arg.data_) ? 2 : XH_EXP(arg.data_) == 0 ? 3 : 4)) __CPROVER_assigns()
#define XV_CONTRACT_half_float__op_sub__half __CPROVER_ensures(RVD == (arg.data_ ^ 0x8000u)) __CPROVER_assigns()
#define XV_CONTRACT_half_float__fabs__half __CPROVER_ensures(RVD == (arg.data_ & 0x7FFFu)) __CPROVER_assigns()
#define XV_CONTRACT_half_float__copysign__half_half __CPROVER_ensures(RVD == ((x.data_ & 0x7FFFu) | (y.data_ & 0x8000u))) __CPROVER_assigns()
/* hash: equal values (in particular -0 and +0) hash equally: the hash is a function of the canonicalised bits */
#define XV_CONTRACT_hhash__op_call__half_c \
  __CPROVER_requires(__CPROVER_is_fresh(self, sizeof(*self))) \
  __CPROVER_ensures(RV == XV_STDHASH((unsigned long)(unsigned short)(arg.data_ == 0x8000u ? 0 : arg.data_))) __CPROVER_assigns()

/* ---- multiplication and division with * / % as uninterpreted functions (unit half_uf) ----
   SAT cannot decide the equivalence of two multiplier/divider circuits here, so in this unit the machine operations
   * / % on unsigned operands are abstracted (in the lowered code and in the spec alike) as uninterpreted functions:
   the code and the spec must apply them to the same normalised mantissas, and everything around them (special cases,
   normalisation of subnormals, exponent arithmetic, guard/sticky rounding, overflow, gradual underflow) is decided
   bit-precisely.  The only facts about the operations that are used are the stated range axioms, which hold for machine
   arithmetic: for a, b in [2^10, 2^11): 2^20 <= a*b < 2^22; for N/D in [1,2)*2^11: 2^11 <= floor(N/D) < 2^12. */
static inline unsigned xh_nm(unsigned h) { xh_u64 M = XH_M(h); return (unsigned)(M << (10 - xh_msb(M))); }     /* finite non-zero h: mantissa in [0x400, 0x7FF] */
static inline int xh_ne(unsigned h) { return XH_E(h) - (10 - xh_msb(XH_M(h))); }
#ifdef XV_UF_UNIT
#define XH_P(x, y) XV_UMUL64((unsigned long)xh_nm(x), (unsigned long)xh_nm(y))
static inline unsigned xh_spec_mul_uf(unsigned x, unsigned y)
{
  unsigned sign = (x ^ y) & 0x8000u;
  if (XH_ISNAN(x) || XH_ISNAN(y))
    return 0x7E00u;
  if (XH_ISINF(x) || XH_ISINF(y))
    return (XH_ISZERO(x) || XH_ISZERO(y)) ? 0x7E00u : (sign | 0x7C00u);
  if (XH_ISZERO(x) || XH_ISZERO(y))
    return sign;
  return xh_round(sign, XH_P(x, y), xh_ne(x) + xh_ne(y), 0);
}
#define XH_MUL_AXIOM(x, y) ((XH_FINITE(x) && XH_FINITE(y) && !XH_ISZERO(x) && !XH_ISZERO(y)) ==> (XH_P(x, y) >= (1ul << 20) && XH_P(x, y) < (1ul << 22)))
#define XV_CONTRACT_half_float__op_mul__half_half \
  __CPROVER_ensures(XH_MUL_AXIOM(x.data_, y.data_) ==> XH_SAME(RVD, xh_spec_mul_uf(x.data_, y.data_))) __CPROVER_assigns()
/* fused multiply-add: exact product-plus-addend as a 128-bit integer multiple of 2^emin, then one rounding */
typedef unsigned __int128 xh_u128;
typedef __int128 xh_i128;
static inline int xh_msb128(xh_u128 v) { return (v >> 64) ? 64 + xh_msb((xh_u64)(v >> 64)) : xh_msb((xh_u64)v); }
static inline unsigned xh_round128(unsigned sign, xh_u128 M, int E)
{
  int q = xh_msb128(M) + E;
  if (q > 15)
    return sign | 0x7C00u;
  int ulp = q >= -14 ? q - 10 : -24, sh = ulp - E;
  xh_u128 kept;
  unsigned up = 0;
  if (sh <= 0)
    kept = M << (-sh);
  else if (sh >= 127)
    kept = 0;
  else
  {
    xh_u128 rem = M & (((xh_u128)1 << sh) - 1), half_ = (xh_u128)1 << (sh - 1);
    kept = M >> sh;
    up = rem > half_ || (rem == half_ && (kept & 1));
  }
  unsigned r = q >= -14 ? (((unsigned)(q + 15) << 10) + ((unsigned)kept - 0x400u) + up) : ((unsigned)kept + up);
  return sign | r;
}
static inline unsigned xh_spec_fma_uf(unsigned x, unsigned y, unsigned z)
{
  unsigned sign = (x ^ y) & 0x8000u;
  if (XH_ISNAN(x) || XH_ISNAN(y) || XH_ISNAN(z))
    return 0x7E00u;
  if (XH_ISINF(x) || XH_ISINF(y))
  {
    if (XH_ISZERO(x) || XH_ISZERO(y))
      return 0x7E00u;                                         /* inf * 0 */
    return (XH_ISINF(z) && XH_SIGN(z) != sign) ? 0x7E00u : (sign | 0x7C00u);
  }
  if (XH_ISINF(z))
    return z;
  if (XH_ISZERO(x) || XH_ISZERO(y))
    return XH_ISZERO(z) ? (sign & XH_SIGN(z)) : z;          /* (+-0) + z */
  int ep = xh_ne(x) + xh_ne(y), ez = XH_E(z), emin = ep < ez ? ep : ez;
  xh_i128 sp = (xh_i128)((xh_u128)XH_P(x, y) << (ep - emin)), sz = (xh_i128)((xh_u128)XH_M(z) << (ez - emin));
  xh_i128 s = (sign ? -sp : sp) + (XH_SIGN(z) ? -sz : sz);
  if (s == 0)
    return 0;                                                 /* exact cancellation of non-zero terms: +0 */
  return s < 0 ? xh_round128(0x8000u, (xh_u128)(-s), emin) : xh_round128(0, (xh_u128)s, emin);
}
#define XV_CONTRACT_half_float__fma__half_half_half XH_CASE \
  __CPROVER_ensures(XH_MUL_AXIOM(x.data_, y.data_) ==> XH_SAME(RVD, xh_spec_fma_uf(x.data_, y.data_, z.data_))) __CPROVER_assigns()
#define XH_DI(x, y) ((unsigned long)(xh_nm(x) < xh_nm(y)))
#define XH_DN(x, y) ((unsigned long)xh_nm(x) << (12 + XH_DI(x, y)))
#define XH_DD(x, y) ((unsigned long)xh_nm(y) << 1)
#define XH_Q(x, y) XV_UDIV64(XH_DN(x, y), XH_DD(x, y))
#define XH_R(x, y) XV_UMOD64(XH_DN(x, y), XH_DD(x, y))
static inline unsigned xh_spec_div_uf(unsigned x, unsigned y)
{
  unsigned sign = (x ^ y) & 0x8000u;
  if (XH_ISNAN(x) || XH_ISNAN(y))
    return 0x7E00u;
  if (XH_ISINF(x))
    return XH_ISINF(y) ? 0x7E00u : (sign | 0x7C00u);
  if (XH_ISINF(y))
    return sign;
  if (XH_ISZERO(y))
    return XH_ISZERO(x) ? 0x7E00u : (sign | 0x7C00u);
  if (XH_ISZERO(x))
    return sign;
  /* x / y = (N / D) * 2^(ex - ey - 12 - i + 1) with N = mx << (12 + i), D = my << 1, i = (mx < my) */
  return xh_round(sign, XH_Q(x, y), xh_ne(x) - xh_ne(y) - 11 - (int)XH_DI(x, y), XH_R(x, y) != 0);
}
#define XH_DIV_AXIOM(x, y) ((XH_FINITE(x) && XH_FINITE(y) && !XH_ISZERO(x) && !XH_ISZERO(y)) ==> (XH_Q(x, y) >= (1ul << 11) && XH_Q(x, y) < (1ul << 12)))
#define XV_CONTRACT_half_float__op_div__half_half \
  __CPROVER_ensures(XH_DIV_AXIOM(x.data_, y.data_) ==> XH_SAME(RVD, xh_spec_div_uf(x.data_, y.data_))) __CPROVER_assigns()
#endif
