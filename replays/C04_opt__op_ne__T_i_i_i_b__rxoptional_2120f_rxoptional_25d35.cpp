#include <xtl/xoptional.hpp>
#include <cstdio>
#include <csignal>
#include <cstdlib>
static int bad = 0;
#define BAD(what) { std::printf("xoptional operator!=: %s differs from the stated semantics\n", what); bad = 1; }
template <class X> bool P(const X& x) { return bool(x.has_value()); }
bool P(const int&) { return true; }
template <class X> auto V(const X& x) { return x.value(); }
int V(const int& x) { return x; }
static void trap(int) { std::printf("SIGFPE: the operation was evaluated on a missing operand (integer division by zero)\n"); std::_Exit(1); }
int main() {
  std::signal(SIGFPE, trap);
  xtl::xoptional<int> x0(0, true);
  xtl::xoptional<int> x1(0, true);
  bool r = (x0 != x1); bool eq = (!P(x0) && !P(x1)) || (P(x0) && P(x1) && V(x0) == V(x1)); if (r != (!eq)) BAD("result of the comparison");
  std::printf("operands: opt(value 0, present), opt(value 0, present)\n");
  return bad;
}
