#include <xtl/xcompare.hpp>
#include <cstdio>
int main() { short t = (short)(258LL); unsigned char u = (unsigned char)(192LL); __int128 a = t, b = u; int bad = 0;
#define CK(f, op) { bool r = xtl::f(t, u); bool e = (a op b); if (r != e) { std::printf(#f "(%lld, %llu as given types) = %d, mathematical comparison gives %d\n", (long long)t, (unsigned long long)u, (int)r, (int)e); bad = 1; } }
 CK(cmp_equal, ==) CK(cmp_not_equal, !=) CK(cmp_less, <) CK(cmp_greater, >) CK(cmp_less_equal, <=) CK(cmp_greater_equal, >=)
 return bad; }
