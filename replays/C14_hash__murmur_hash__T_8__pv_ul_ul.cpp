#define CEX_BYTES 0x80, 0x80, 0x80, 0x80, 0x80, 0x80, 0x80, 0x80, 0x80, 0x80, 0x80, 0x80, 0x80, 0x80, 0x80, 0x80, 0x80, 0x80, 0x80, 0x80, 0x80, 0x80, 0x80, 0x80, 0x80, 0x80, 0x80, 0x80, 0x80, 0x80, 0x80, 0x80, 0x80, 0x80, 0x80, 0x80, 0x80, 0x80, 0x80, 0x80, 
#define CEX_LEN 40
#define CEX_SEED 2438839944307862921ull
#define SEED 0u

#include <xtl/xhash.hpp>
#include <cstdio>
#include <cstdlib>
#include <cstring>
#include <cstdint>
// independent references (Austin Appleby, MurmurHash2.cpp), reading byte by byte
static uint32_t ref32(const unsigned char* d, size_t len, uint32_t seed) {
  const uint32_t m = 0x5bd1e995; uint32_t h = seed ^ (uint32_t)len; size_t n = len;
  while (n >= 4) { uint32_t k = d[0] | (d[1] << 8) | (d[2] << 16) | ((uint32_t)d[3] << 24); k *= m; k ^= k >> 24; k *= m; h *= m; h ^= k; d += 4; n -= 4; }
  switch (n) { case 3: h ^= d[2] << 16; case 2: h ^= d[1] << 8; case 1: h ^= d[0]; h *= m; }
  h ^= h >> 13; h *= m; h ^= h >> 15; return h; }
static uint64_t ref64(const unsigned char* d, size_t len, uint64_t seed) {
  const uint64_t m = 0xc6a4a7935bd1e995ULL; const int r = 47; uint64_t h = seed ^ (len * m); size_t n = len;
  while (n >= 8) { uint64_t k = 0; for (int i = 7; i >= 0; --i) k = (k << 8) | d[i]; k *= m; k ^= k >> r; k *= m; h ^= k; h *= m; d += 8; n -= 8; }
  switch (n) { case 7: h ^= (uint64_t)d[6] << 48; case 6: h ^= (uint64_t)d[5] << 40; case 5: h ^= (uint64_t)d[4] << 32; case 4: h ^= (uint64_t)d[3] << 24;
               case 3: h ^= (uint64_t)d[2] << 16; case 2: h ^= (uint64_t)d[1] << 8; case 1: h ^= (uint64_t)d[0]; h *= m; }
  h ^= h >> r; h *= m; h ^= h >> r; return h; }
static int check(const unsigned char* bytes, size_t len, uint64_t seed, const char* what) {
  // exact-size heap block (AddressSanitizer flags any read outside [buffer, buffer+length))
  unsigned char* b = (unsigned char*)std::malloc(len ? len : 1); std::memcpy(b, bytes, len);
  std::fprintf(stderr, "trying %s: length %zu seed %llu\n", what, len, (unsigned long long)seed);
  int bad = 0;
  uint32_t a = xtl::murmur2_x86(len ? b : b, len, (uint32_t)seed), ra = ref32(b, len, (uint32_t)seed);
  if (a != ra) { std::printf("murmur2_x86(len=%zu, seed=%u) = 0x%08x, reference MurmurHash2 0x%08x\n", len, (uint32_t)seed, a, ra); bad = 1; }
  uint64_t c = xtl::murmur2_x64(b, len, seed), rc = ref64(b, len, seed);
  if (c != rc) { std::printf("murmur2_x64(len=%zu, seed=%llu) = 0x%016llx, reference MurmurHash64A 0x%016llx\n", len, (unsigned long long)seed, (unsigned long long)c, (unsigned long long)rc); bad = 1; }
  size_t hb = xtl::hash_bytes(b, len, (size_t)seed);
  if (hb != rc) { std::printf("hash_bytes(len=%zu) = 0x%016llx, reference 0x%016llx\n", len, (unsigned long long)hb, (unsigned long long)rc); bad = 1; }
  if (bad) { std::printf("bytes:"); for (size_t i = 0; i < len && i < 48; ++i) std::printf(" %02x", b[i]); std::printf("\n"); }
  std::free(b); return bad; }
int main() {
  static const unsigned char cex[] = { CEX_BYTES 0 };
  if (check(cex, CEX_LEN, CEX_SEED, "verifier counterexample")) return 1;
  unsigned x = SEED * 2654435761u + 99u; unsigned char buf[64];
  for (size_t len = 0; len <= 40; ++len) for (int rep = 0; rep < 6; ++rep) {
    for (size_t i = 0; i < len; ++i) { x = x * 1664525u + 1013904223u; buf[i] = (rep & 1) ? (unsigned char)(0x80 | (x >> 24)) : (unsigned char)(x >> 24); }
    x = x * 1664525u + 1013904223u; if (check(buf, len, rep < 2 ? 0 : ((uint64_t)x << 32) | x, "search")) return 1; }
  return 0; }
