#define TCB_SPAN_NO_CONTRACT_CHECKING
#include <xtl/xspan.hpp>
#include <vector>
#include <cstdio>
#include <stdexcept>
static const std::size_t DYN = (std::size_t)-1;
int main() {
  std::size_t n = 0ull, offset = 0ull, count = 0ull, idx = 93488ull;
  std::vector<int> parent(n + 1); int* base = parent.data();
  tcb::span<int> s(base, n);
  bool viol = false, oor = false; const int* rp = 0; std::size_t rs = 0; bool is_view = false, is_num = false;
#define VIEW(e) { auto r = e; rp = r.data(); rs = r.size(); is_view = true; }
#define ELEM(e) { rp = &(e); }
#define PTR(e) { rp = e; }
#define NUM(e) { rs = (std::size_t)(e); rp = base; is_num = true; }
  try { ELEM(s.at(idx)) } catch (std::out_of_range&) { oor = true; } catch (std::logic_error&) { viol = true; }
  bool ok = (idx < n);
  bool checked = false, is_at = true;
  std::printf("tcb::span<int> of size %zu: at__ul_c(offset=%zu, count=%zu, idx=%zu): %s\n", n, offset, count, idx,
              viol ? "contract_violation thrown" : oor ? "out_of_range thrown" : "no exception");
  int bad = 0;
  if (is_at) { if (oor != !ok) { std::printf("at(): out_of_range expected exactly for idx >= size()\n"); bad = 1; } }
  else if (checked) { if (viol != !ok) { std::printf("checked mode: request %s but %s\n", ok ? "is in range" : "is OUT OF RANGE", viol ? "was rejected" : "was ACCEPTED"); bad = 1; } }
  else if (!ok) { std::printf("(precondition of the unchecked mode violated by these arguments - not a valid replay)\n"); return 2; }
  if (!viol && !oor) {
    const int* ep = base + idx; std::size_t es = (std::size_t)(0);
    if (ok && rp != ep) { std::printf("result starts at parent%+td, expected parent%+td\n", rp - base, ep - base); bad = 1; }
    if (ok && (is_view || is_num) && rs != es) { std::printf("result size/value %zu, expected %zu\n", rs, es); bad = 1; }
    if (!ok && is_view) std::printf("returned view: start parent%+td, size %zu (outside a parent of %zu elements)\n", rp - base, rs, n);
  }
  return bad;
}
