#include <xtl/xmasked_value.hpp>
#include <cstdio>
#include <csignal>
#include <cstdlib>
static int bad = 0;
#define BAD(what) { std::printf("xmasked_value operator&=: %s differs from the stated semantics\n", what); bad = 1; }
template <class X> bool P(const X& x) { return bool(x.visible()); }
bool P(const int&) { return true; }
template <class X> auto V(const X& x) { return x.value(); }
int V(const int& x) { return x; }
static void trap(int) { std::printf("SIGFPE: the operation was evaluated on a missing operand (integer division by zero)\n"); std::_Exit(1); }
int main() {
  std::signal(SIGFPE, trap);
  xtl::xmasked_value<int> x0(0, false);
  xtl::xmasked_value<int> x1(0, false);
  int before = V(x0); bool pb = P(x0); x0 &= x1; bool pe = pb && P(x1); if (P(x0) != pe) BAD("presence of the target"); if (pe) { int e = before; e &= V(x1); if (V(x0) != e) BAD("value of the target"); } else if (V(x0) != before) BAD("a missing result altered the target value");
  std::printf("operands: opt(value 0, missing), opt(value 0, missing)\n");
  return bad;
}
