/* std::char_traits<CT> / <algorithm> on character ranges, as C with loop contracts (inlined into the function under proof and
   discharged there; nothing is assumed).  Ghost convention: xv_g is a ghost BYTE/ELEMENT OFFSET INSIDE THE DESTINATION OBJECT
   (for a fixed string the buffer is at offset 0 of the object, so xv_g is the character index); a model function that writes
   dst[0..n) states what the element at object offset xv_g holds, through K = xv_g - offset(dst). Frames are object_upto ranges. */
#ifndef XV_CHR_H
#define XV_CHR_H
/* XV_CHR_EXACT: the model loops carry no loop contract and are unwound (used for capacity-bounded search proofs that need
   the exact result of char_traits::find/compare rather than their ghost-index abstraction) */
#ifdef XV_CHR_EXACT
#define XV_LASSIGNS(...)
#define XV_LINV(...)
#define XV_LDEC(...)
#else
#define XV_LASSIGNS(...) __CPROVER_assigns(__VA_ARGS__)
#define XV_LINV(...) __CPROVER_loop_invariant(__VA_ARGS__)
#define XV_LDEC(...) __CPROVER_decreases(__VA_ARGS__)
#endif
#define XV_OFF(p, T) ((unsigned long)__CPROVER_POINTER_OFFSET(p) / sizeof(T))
#define XV_K(dst, T) (xv_g - XV_OFF(dst, T))
#define XV_KIN(dst, T, lo, hi) (xv_g >= XV_OFF(dst, T) + (lo) && xv_g < XV_OFF(dst, T) + (hi))
#define XV_CLAMP(k, n) ((k) < (n) ? (k) : (n) - 1)

#define XV_CHR_MODEL(T, S) \
/* forward copy: correct for disjoint ranges and for overlapping ranges with dst before src (std::copy's precondition) */ \
static inline T* xv_copy_fwd_##S(T* dst, const T* src, unsigned long n) { \
  if (n == 0) return dst; \
  __CPROVER_assert(!__CPROVER_same_object(dst, src) || dst <= src || src + n <= dst, "forward copy: destination must not start inside (first, last)"); \
  for (unsigned long xv_i = 0; xv_i < n; ++xv_i) \
    XV_LASSIGNS(xv_i, __CPROVER_object_upto(dst, n * sizeof(T))) \
    XV_LINV(xv_i <= n) \
    XV_LINV(XV_KIN(dst, T, 0, xv_i) ==> dst[XV_CLAMP(XV_K(dst, T), n)] == __CPROVER_loop_entry(src[XV_CLAMP(XV_K(dst, T), n)])) \
    /* the source element that will land on the ghost position has not been overwritten yet */ \
    XV_LINV(XV_KIN(dst, T, xv_i, n) ==> src[XV_CLAMP(XV_K(dst, T), n)] == __CPROVER_loop_entry(src[XV_CLAMP(XV_K(dst, T), n)])) \
    XV_LDEC(n - xv_i) \
  { dst[xv_i] = src[xv_i]; } \
  return dst + n; } \
/* backward copy of [src, src+n) so that it ends at dend: correct for overlapping ranges with dst after src */ \
static inline T* xv_copy_bwd_##S(const T* src, unsigned long n, T* dend) { \
  T* dst = dend - n; \
  if (n == 0) return dst; \
  __CPROVER_assert(!__CPROVER_same_object(dst, src) || dst >= src || dst + n <= src, "backward copy: destination end must not lie inside (first, last]"); \
  for (unsigned long xv_i = n; xv_i > 0; --xv_i) \
    XV_LASSIGNS(xv_i, __CPROVER_object_upto(dst, n * sizeof(T))) \
    XV_LINV(xv_i <= n) \
    XV_LINV(XV_KIN(dst, T, xv_i, n) ==> dst[XV_CLAMP(XV_K(dst, T), n)] == __CPROVER_loop_entry(src[XV_CLAMP(XV_K(dst, T), n)])) \
    XV_LINV(XV_KIN(dst, T, 0, xv_i) ==> src[XV_CLAMP(XV_K(dst, T), n)] == __CPROVER_loop_entry(src[XV_CLAMP(XV_K(dst, T), n)])) \
    XV_LDEC(xv_i) \
  { dst[xv_i - 1] = src[xv_i - 1]; } \
  return dst; } \
/* char_traits::copy: ranges must not overlap */ \
static inline T* xv_tr_copy_##S(T* dst, const T* src, unsigned long n) { \
  __CPROVER_assert(n == 0 || !__CPROVER_same_object(dst, src) || dst + n <= src || src + n <= dst, "char_traits::copy: ranges must not overlap"); \
  xv_copy_fwd_##S(dst, src, n); return dst; } \
/* char_traits::move: overlap allowed */ \
static inline T* xv_tr_move_##S(T* dst, const T* src, unsigned long n) { \
  if (__CPROVER_same_object(dst, src) && dst > src) xv_copy_bwd_##S(src, n, dst + n); else xv_copy_fwd_##S(dst, src, n); return dst; } \
static inline T* xv_tr_assign_##S(T* dst, unsigned long n, T val) { \
  if (n == 0) return dst; \
  for (unsigned long xv_i = 0; xv_i < n; ++xv_i) \
    XV_LASSIGNS(xv_i, __CPROVER_object_upto(dst, n * sizeof(T))) \
    XV_LINV(xv_i <= n) \
    XV_LINV(XV_KIN(dst, T, 0, xv_i) ==> dst[XV_CLAMP(XV_K(dst, T), n)] == val) \
    XV_LDEC(n - xv_i) \
  { dst[xv_i] = val; } \
  return dst; } \
/* char_traits::find: first position of val in [p, p+n) or null; ghost xv_k: no match before the result */ \
static inline const T* xv_tr_find_##S(const T* p, unsigned long n, T val) { \
  __CPROVER_assert(n == 0 || __CPROVER_r_ok(p, n * sizeof(T)), "char_traits::find: [p, p+n) must be readable"); \
  for (unsigned long xv_i = 0; xv_i < n; ++xv_i) \
    XV_LASSIGNS(xv_i) \
    XV_LINV(xv_i <= n) \
    XV_LINV(xv_k < xv_i ==> p[xv_k] != val) \
    XV_LDEC(n - xv_i) \
  { if (p[xv_i] == val) return p + xv_i; } \
  return 0; } \
/* char_traits::compare: sign of the first difference (unsigned char order for char); ghost xv_k: equal before it; xv_m: its index */ \
static inline int xv_tr_compare_##S(const T* a, const T* b, unsigned long n) { \
  __CPROVER_assert(n == 0 || (__CPROVER_r_ok(a, n * sizeof(T)) && __CPROVER_r_ok(b, n * sizeof(T))), "char_traits::compare: both ranges must be readable"); \
  for (unsigned long xv_i = 0; xv_i < n; ++xv_i) \
    XV_LASSIGNS(xv_i) \
    XV_LINV(xv_i <= n) \
    XV_LINV(xv_k < xv_i ==> a[xv_k] == b[xv_k]) \
    XV_LDEC(n - xv_i) \
  { if (XV_CHR_LT(a[xv_i], b[xv_i])) { xv_m = xv_i; return -1; } if (XV_CHR_LT(b[xv_i], a[xv_i])) { xv_m = xv_i; return 1; } } \
  xv_m = n; return 0; }
#define XV_CHR_LT(x, y) ((unsigned char)(x) < (unsigned char)(y))   /* std::char_traits<char>::lt compares as unsigned char */
#endif
