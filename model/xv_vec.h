/* std::vector<T> storage model {data,size} and the <algorithm> pieces xtl uses on it (DESIGN.md 3.3).
   The model functions are ordinary C with loop contracts; they are INLINED into the function under proof and their
   loops are discharged there (nothing here is assumed).  Ghost conventions:
     XV_GB_<S> (macro per element type S, default XV_GB, default of that xv_g): the ghost ELEMENT index used by whole-vector operations
     XV_FILL_OFF (macro, unit-defined, default 0): container index at which a filled range starts
   heap blocks get a symbolic size so that the verifier keeps them as unbounded arrays. */
#ifndef XV_VEC_H
#define XV_VEC_H
#ifndef XV_GB
#define XV_GB xv_g
#endif
#ifndef XV_FILL_OFF
#define XV_FILL_OFF 0ul      /* container index at which a filled range starts (ghost, unit-defined) */
#endif
#ifndef XV_MAXBLK
#define XV_MAXBLK XV_MAXLEN
#endif
unsigned long nondet_xv_cap(void);
#define XV_IN_RANGE(p, first, n) (__CPROVER_same_object((p), (first)) && (first) <= (p) && (p) < (first) + (n))

#define XV_VEC_MODEL(T, S) \
static inline T* xv_alloc_##S(unsigned long n) { \
  unsigned long cap = nondet_xv_cap(); __CPROVER_assume(cap >= n * sizeof(T) && cap <= (XV_MAXBLK + 8) * sizeof(T) && cap >= 1); \
  T* p = (T*)malloc(cap); __CPROVER_assume(p != 0); return p; } \
static inline void xv_fill_n_##S(T* first, unsigned long n, T val) { \
  if (n == 0) return; /* an empty range may start one past the end: no frame to state */ \
  for (unsigned long xv_i = 0; xv_i < n; ++xv_i) \
    /* frame: exactly the first n elements may change (elements outside the range are not havocked) */ \
    __CPROVER_assigns(xv_i, __CPROVER_object_upto(first, n * sizeof(T))) \
    __CPROVER_loop_invariant(xv_i <= n) \
    /* ghost element: index XV_GB_##S of the container, the range starts at container index XV_FILL_OFF */ \
    __CPROVER_loop_invariant((XV_GB_##S >= XV_FILL_OFF && XV_GB_##S - XV_FILL_OFF < xv_i) ==> first[XV_GB_##S - XV_FILL_OFF] == val) \
    /* last element of the range */ \
    __CPROVER_loop_invariant((xv_i == n && n > 0) ==> first[n - 1] == val) \
    __CPROVER_decreases(n - xv_i) \
  { first[xv_i] = val; } } \
static inline void xv_vec_##S##_ctor_n(xv_vec_##S* v, unsigned long n, T val) { \
  __CPROVER_assert(n <= XV_MAXBLK, "vector model: allocation bound"); \
  T* nd = xv_alloc_##S(n); \
  for (unsigned long xv_i = 0; xv_i < n; ++xv_i) \
    __CPROVER_assigns(xv_i, __CPROVER_object_whole(nd)) \
    __CPROVER_loop_invariant(xv_i <= n) \
    __CPROVER_loop_invariant(XV_GB_##S < xv_i ==> nd[XV_GB_##S] == val) \
    __CPROVER_loop_invariant((xv_i == n && n > 0) ==> nd[n - 1] == val) \
    __CPROVER_decreases(n - xv_i) \
  { nd[xv_i] = val; } \
  v->data = nd; v->size = n; } \
static inline void xv_vec_##S##_ctor_range(xv_vec_##S* v, const T* first, const T* last) { \
  unsigned long n = (unsigned long)(last - first); \
  __CPROVER_assert(n <= XV_MAXBLK, "vector model: allocation bound"); \
  T* nd = xv_alloc_##S(n); \
  for (unsigned long xv_i = 0; xv_i < n; ++xv_i) \
    __CPROVER_assigns(xv_i, __CPROVER_object_whole(nd)) \
    __CPROVER_loop_invariant(xv_i <= n) \
    __CPROVER_loop_invariant(XV_GB_##S < xv_i ==> nd[XV_GB_##S] == first[XV_GB_##S]) \
    __CPROVER_loop_invariant((xv_i == n && n > 0) ==> nd[n - 1] == first[n - 1]) \
    __CPROVER_decreases(n - xv_i) \
  { nd[xv_i] = first[xv_i]; } \
  v->data = nd; v->size = n; } \
static inline void xv_vec_##S##_resize(xv_vec_##S* v, unsigned long n, T val) { \
  __CPROVER_assert(n <= XV_MAXBLK, "vector model: allocation bound"); \
  T* od = v->data; unsigned long os = v->size; unsigned long m = os < n ? os : n; \
  T* nd = xv_alloc_##S(n); \
  for (unsigned long xv_i = 0; xv_i < n; ++xv_i) \
    __CPROVER_assigns(xv_i, __CPROVER_object_whole(nd)) \
    __CPROVER_loop_invariant(xv_i <= n) \
    __CPROVER_loop_invariant(XV_GB_##S < xv_i ==> nd[XV_GB_##S] == (XV_GB_##S < m ? od[XV_GB_##S] : val)) \
    __CPROVER_loop_invariant((xv_i == n && n > 0) ==> nd[n - 1] == (n - 1 < m ? od[n - 1] : val)) \
    __CPROVER_decreases(n - xv_i) \
  { nd[xv_i] = xv_i < m ? od[xv_i] : val; } \
  v->data = nd; v->size = n; } \
static inline void xv_vec_##S##_pop_back(xv_vec_##S* v) { __CPROVER_assert(v->size > 0, "vector model: pop_back on empty vector"); v->size = v->size - 1; } \
static inline void xv_vec_##S##_clear(xv_vec_##S* v) { v->size = 0; } \
static T xv_vec_##S##_dummy; \
static inline T* xv_vec_##S##_at(xv_vec_##S* v, unsigned long i) { \
  if (i >= v->size) { xv_exc = XV_EXC_out_of_range; return &xv_vec_##S##_dummy; } return &v->data[i]; } \
static inline void xv_vec_##S##_swap(xv_vec_##S* a, xv_vec_##S* b) { xv_vec_##S t = *a; *a = *b; *b = t; } \
/* std::equal(first1, last1, first2) on pointer iterators: reads [first2, first2 + (last1 - first1)) - a shorter second range fails a pointer obligation */ \
static inline _Bool xv_equal_##S(const T* f1, const T* l1, const T* f2) { \
  unsigned long n = (unsigned long)(l1 - f1); \
  for (unsigned long xv_i = 0; xv_i < n; ++xv_i) \
    __CPROVER_assigns(xv_i) \
    __CPROVER_loop_invariant(xv_i <= n) \
    __CPROVER_loop_invariant(XV_GB_##S < xv_i ==> f1[XV_GB_##S] == f2[XV_GB_##S]) \
    __CPROVER_decreases(n - xv_i) \
  { if (f1[xv_i] != f2[xv_i]) { xv_k = xv_i; return 0; } } \
  return 1; } \
/* a == b (std::equal over equal sizes); a differing position is published in the ghost xv_k */ \
static inline _Bool xv_vec_##S##_eq(const xv_vec_##S* a, const xv_vec_##S* b) { \
  if (a->size != b->size) return 0; \
  unsigned long n = a->size; \
  for (unsigned long xv_i = 0; xv_i < n; ++xv_i) \
    __CPROVER_assigns(xv_i) \
    __CPROVER_loop_invariant(xv_i <= n) \
    __CPROVER_loop_invariant(XV_GB_##S < xv_i ==> a->data[XV_GB_##S] == b->data[XV_GB_##S]) \
    __CPROVER_decreases(n - xv_i) \
  { if (a->data[xv_i] != b->data[xv_i]) { xv_k = xv_i; return 0; } } \
  return 1; }
#endif
