/* <cmath> pieces used by xcomplex, with CBMC's IEEE-754 semantics (bit-precise float/double), not uninterpreted:
   classification and sign functions map to CBMC primitives; logb / scalbn (no CBMC library body) are exact bit-level models. */
#ifndef XV_FP_H
#define XV_FP_H
#include <math.h>
#define XV_ISNAN_f(x) __CPROVER_isnanf(x)
#define XV_ISINF_f(x) __CPROVER_isinff(x)
#define XV_ISFIN_f(x) __CPROVER_isfinitef(x)
#define XV_ISNAN_d(x) __CPROVER_isnand(x)
#define XV_ISINF_d(x) __CPROVER_isinfd(x)
#define XV_ISFIN_d(x) __CPROVER_isfinited(x)
#define XV_INF_f ((float)__builtin_inff())
#define XV_INF_d ((double)__builtin_inf())
/* logb: unbiased exponent of |x| as a floating value; +-0 -> -inf, inf -> +inf, NaN -> NaN */
static inline float xv_logbf(float x)
{
  if (__CPROVER_isnanf(x)) return x;
  if (__CPROVER_isinff(x)) return XV_INF_f;
  if (x == 0.0f) return -XV_INF_f;
  unsigned int u; __CPROVER_assume(1); { union { float f; unsigned int i; } cv; cv.f = x; u = cv.i; }
  int e = (int)((u >> 23) & 0xff);
  if (e != 0) return (float)(e - 127);
  unsigned int m = u & 0x7fffffu;        /* subnormal: position of the leading mantissa bit */
  int k = 0;
  for (int b = 22; b >= 0; --b) if ((m >> b) & 1u) { k = b; break; }
  return (float)(k - 149);
}
/* scalbn: x * 2^n with one rounding (musl's algorithm: at most three multiplications by powers of two) */
static inline float xv_scalbnf(float x, int n)
{
  float y = x;
  if (n > 127) { y *= 0x1p127f; n -= 127; if (n > 127) { y *= 0x1p127f; n -= 127; if (n > 127) n = 127; } }
  else if (n < -126) { y *= 0x1p-126f * 0x1p24f; n += 126 - 24; if (n < -126) { y *= 0x1p-126f * 0x1p24f; n += 126 - 24; if (n < -126) n = -126; } }
  union { float f; unsigned int i; } cv; cv.i = (unsigned int)(0x7f + n) << 23;
  return y * cv.f;
}
/* units lowered with uf_mul='float': float * and / are uninterpreted functions shared by code and contract (a result proved for
   every interpretation holds for IEEE multiplication and division); IEEE multiplication is commutative, so the uninterpreted
   symbol is applied to the operands in a canonical order */
float __CPROVER_uninterpreted_fmul32(float, float);
float __CPROVER_uninterpreted_fdiv32(float, float);
static inline unsigned int xv_fbits(float f) { union { float f; unsigned int i; } cv; cv.f = f; return cv.i; }
static inline float xv_fmul32(float a, float b) { return xv_fbits(a) <= xv_fbits(b) ? __CPROVER_uninterpreted_fmul32(a, b) : __CPROVER_uninterpreted_fmul32(b, a); }
#define XV_FMUL32(a, b) xv_fmul32((a), (b))
#define XV_FDIV32(a, b) __CPROVER_uninterpreted_fdiv32((a), (b))
/* uf_mul='floatall': + and - as well (+ commutative) - the formula contracts then compare terms, not circuits */
float __CPROVER_uninterpreted_fadd32(float, float);
float __CPROVER_uninterpreted_fsub32(float, float);
static inline float xv_fadd32(float a, float b) { return xv_fbits(a) <= xv_fbits(b) ? __CPROVER_uninterpreted_fadd32(a, b) : __CPROVER_uninterpreted_fadd32(b, a); }
#define XV_FADD32(a, b) xv_fadd32((a), (b))
#define XV_FSUB32(a, b) __CPROVER_uninterpreted_fsub32((a), (b))
#endif
