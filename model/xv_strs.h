/* std::string as an ABSTRACT VALUE with SAMPLED contracts (used by units that reason about string contents of unbounded length).
   A string object is {data, size}; data only serves as the identity of the contents (a fresh 1-byte block per string value) and
   the characters are the uninterpreted function  XV_CH(s, j) = strch(s.data, j)  - no character is stored in verifier memory.
   Strings are immutable values here: every operation below creates a new value; units lowered with this model reject the
   memory-based members (push_back, operator[], data() ...) as unsupported (tool trouble, never a verdict).
   A fact "for all positions j" is stated at the positions of the sample set
       S = { xv_g, xv_a0, xv_a1, xv_a2, xv_a3, xv_a4 }
   xv_g is an arbitrary ghost index; xv_a0.. are the ghost positions a unit's contract names (let-bound world positions
   and PROPHECY values: a search result is assumed equal to the ghost the unit designates for that call, XV_STRS_PROPHECY).
   Every assumed fact is an instance of a fact that std::string guarantees at ALL positions, so every real execution is
   one of the executions explored (choose the prophecy ghosts equal to the values the real execution computes).
   These bodies are the TRUSTED model of libstdc++'s basic_string (listed in the evidence), not proved code. */
#ifndef XV_STRS_H
#define XV_STRS_H
#ifndef XV_S_ALL
#define XV_S_ALL(P) (P(xv_g) && P(xv_a0) && P(xv_a1) && P(xv_a2) && P(xv_a3) && P(xv_a4))
#endif
#define XV_NPOS (~0ul)
unsigned long nondet_xv_ul(void);
char __CPROVER_uninterpreted_strch(const char*, unsigned long);
#define XV_CH(s, j) __CPROVER_uninterpreted_strch((s).data, (j))
/* prophecy hook: the unit says which ghost the k-th search must equal (default: none) */
#ifndef XV_STRS_PROPHECY
#define XV_STRS_PROPHECY(s, r) 1
#endif
#ifdef XV_STRS_COUNT_CALLS
#define XV_STRS_TICK() (xv_strs_ncall = xv_strs_ncall + 1)
#else
#define XV_STRS_TICK() ((void)0)
#endif
#ifndef XV_CSTR_HINT
#define XV_CSTR_HINT(p) 0ul
#endif
#ifndef XV_CSTR_PROPHECY
#define XV_CSTR_PROPHECY(p, r) 1
#endif
/* reads of real memory inside the sampled assumptions are guarded by the explicit r_ok assertions next to them */
#define XV_NOCHK_BEGIN _Pragma("CPROVER check push") _Pragma("CPROVER check disable \"pointer\"") _Pragma("CPROVER check disable \"bounds\"") _Pragma("CPROVER check disable \"pointer-primitive\"") _Pragma("CPROVER check disable \"pointer-overflow\"")
#define XV_NOCHK_END _Pragma("CPROVER check pop")

static inline void xv_strs_alloc(xv_str* r, unsigned long len)
{
  __CPROVER_assert(len <= XV_MAXLEN, "string model: length within the modelled maximum");
  r->data = (char*)malloc(1); __CPROVER_assume(r->data != 0); r->size = len;
  __CPROVER_assume(XV_CH(*r, len) == 0);
}
static inline void xv_strs_init(xv_str* r) { xv_strs_alloc(r, 0); }
static inline void xv_strs_copy(xv_str* r, const xv_str* s)
{
  xv_strs_alloc(r, s->size);
#define XV_P_CPY(j) ((j) < s->size ==> XV_CH(*r, j) == XV_CH(*s, j))
  __CPROVER_assume(XV_S_ALL(XV_P_CPY));
}
/* s.find_last_of(c, pos) == s.rfind(c, pos): last position <= pos holding c, npos if none */
static inline unsigned long xv_strs_flo_ch(const xv_str* s, char c, unsigned long pos)
{
  unsigned long r = nondet_xv_ul();
  unsigned long lim = s->size == 0 ? 0 : (pos < s->size - 1 ? pos + 1 : s->size);     /* positions [0, lim) are searched */
#define XV_P_NONE(j) ((j) < lim ==> XV_CH(*s, j) != c)
#define XV_P_AFTER(j) (((j) > r && (j) < lim) ==> XV_CH(*s, j) != c)
  __CPROVER_assume((r == XV_NPOS && XV_S_ALL(XV_P_NONE)) || (r < lim && XV_CH(*s, r) == c && XV_S_ALL(XV_P_AFTER)));
  XV_STRS_TICK();
  __CPROVER_assume(XV_STRS_PROPHECY(s, r));
  return r;
}
/* membership of ch in the NUL-terminated set (sets of up to 4 characters are modelled; longer ones fail the assertion) */
#define XV_INSET(set, ch) ((set)[0] != 0 && ((set)[0] == (ch) || ((set)[1] != 0 && ((set)[1] == (ch) || ((set)[2] != 0 && ((set)[2] == (ch) || ((set)[3] != 0 && (set)[3] == (ch))))))))
static inline unsigned long xv_strs_flo_set(const xv_str* s, const char* set, unsigned long pos)
{
  __CPROVER_assert(set[0] == 0 || set[1] == 0 || set[2] == 0 || set[3] == 0 || set[4] == 0, "string model: character set of at most 4 characters");
  unsigned long r = nondet_xv_ul();
  unsigned long lim = s->size == 0 ? 0 : (pos < s->size - 1 ? pos + 1 : s->size);
#define XV_P_NONES(j) ((j) < lim ==> !XV_INSET(set, XV_CH(*s, j)))
#define XV_P_AFTERS(j) (((j) > r && (j) < lim) ==> !XV_INSET(set, XV_CH(*s, j)))
  __CPROVER_assume((r == XV_NPOS && XV_S_ALL(XV_P_NONES)) || (r < lim && XV_INSET(set, XV_CH(*s, r)) && XV_S_ALL(XV_P_AFTERS)));
  XV_STRS_TICK();
  __CPROVER_assume(XV_STRS_PROPHECY(s, r));
  return r;
}
/* s.substr(pos, n): throws out_of_range when pos > size() */
static inline xv_str xv_strs_substr(const xv_str* s, unsigned long pos, unsigned long n)
{
  xv_str r; r.data = 0; r.size = 0;
  if (pos > s->size) { xv_exc = XV_EXC_out_of_range; return r; }
  unsigned long len = n < s->size - pos ? n : s->size - pos;
  xv_strs_alloc(&r, len);
#define XV_P_SUB(j) ((j) < len ==> XV_CH(r, j) == XV_CH(*s, pos + (j)))
  __CPROVER_assume(XV_S_ALL(XV_P_SUB));
  return r;
}
/* s + c */
static inline xv_str xv_strs_plus_ch(const xv_str* s, char c)
{
  xv_str r; xv_strs_alloc(&r, s->size + 1);
#define XV_P_PLUS(j) ((j) < s->size ==> XV_CH(r, j) == XV_CH(*s, j))
  __CPROVER_assume(XV_S_ALL(XV_P_PLUS) && XV_CH(r, s->size) == c);
  return r;
}
/* s.assign(p, n) / string(p, n): n characters starting at p (they must be readable: checked) */
static inline void xv_strs_assign_n(xv_str* s, const char* p, unsigned long n)
{
  __CPROVER_assert(n == 0 || __CPROVER_r_ok(p, n), "string model: assign(p, n) reads n characters inside the source object");
  xv_str r; xv_strs_alloc(&r, n);
#define XV_P_ASG(j) ((j) < n ==> XV_CH(r, j) == p[j])
  XV_NOCHK_BEGIN
  __CPROVER_assume(XV_S_ALL(XV_P_ASG));
  XV_NOCHK_END
  *s = r;
}
/* strlen(p): the caller's contract gives the position of a terminator (XV_CSTR_HINT, checked: it must be inside the object and
   hold 0); the result is the FIRST terminator, characterised at the sample positions */
static inline unsigned long xv_strs_cstrlen(const char* p)
{
  unsigned long w = XV_CSTR_HINT(p);
  __CPROVER_assert(__CPROVER_r_ok(p, w + 1) && p[w] == 0, "C string is terminated inside its object (no read past the end)");
  unsigned long r = nondet_xv_ul();
#define XV_P_NZ(j) ((j) < r ==> p[j] != 0)
  XV_NOCHK_BEGIN
  __CPROVER_assume(r <= w && p[r] == 0 && XV_S_ALL(XV_P_NZ));
  XV_NOCHK_END
  __CPROVER_assume(XV_CSTR_PROPHECY(p, r));
  return r;
}
/* s = p / string(p) for a C string p */
static inline void xv_strs_assign_cstr(xv_str* s, const char* p)
{
  unsigned long n = xv_strs_cstrlen(p);
  xv_strs_assign_n(s, p, n);
}
#endif
