/* Trusted C model of the libstdc++/libc pieces xtl leans on (DESIGN.md 3.3).
   Everything here is part of the trusted base and is listed in the evidence files. */
#ifndef XV_STD_H
#define XV_STD_H
#include <stddef.h>
#include <string.h>
#include <stdlib.h>

typedef struct { char __empty; } xv_empty;

/* exception model: throw E(...) -> xv_exc = XV_EXC_<E>; return */
extern int xv_exc;
#define XV_EXC_length_error 1
#define XV_EXC_out_of_range 2
#define XV_EXC_runtime_error 3
#define XV_EXC_logic_error 4
#define XV_EXC_bad_alloc 5
#define XV_EXC_invalid_argument 6

/* reachability canary: must FAIL in every harness (satisfiable precondition, function returns) */
#define XV_CANARY() __CPROVER_assert(0, "canary: end of harness reachable (must fail)")

/* ghost index: arbitrary, so a statement about position xv_g holds for every position */
extern unsigned long xv_a0, xv_a1, xv_a2, xv_a3, xv_a4, xv_a5, xv_a6, xv_a7;   /* ghost scalars defined by equalities in requires clauses (let-bindings of spec terms) */
extern const void* xv_p0;   /* ghost pointer */
extern unsigned long xv_g, xv_n, xv_k, xv_m;   /* xv_n, xv_k, xv_m: further ghost quantities (lengths, offsets) */

/* allocation bound of the heap-storage models */
#ifndef XV_MAXLEN
#define XV_MAXLEN 1000000ul
#endif

/* strlen / char_traits::length: a plain loop (CBMC's library body is linked after the contract instrumentation and cannot be bounded
   there); units that reach it unwind it to the capacity of the buffer with unwinding assertions */
static inline unsigned long xv_strlen(const char* p) { unsigned long n = 0; while (p[n] != 0) { ++n; } return n; }

/* std::string storage model */
typedef struct { char* data; unsigned long size; } xv_str;
#define XV_STR_CAP (2 * XV_MAXLEN + 16)
unsigned long nondet_xv_cap(void);
/* the heap block has a symbolic size >= XV_STR_CAP so that the verifier keeps it as an unbounded array (no flattening) */
static inline void xv_str_init(xv_str* s) { unsigned long cap = nondet_xv_cap(); __CPROVER_assume(cap >= XV_STR_CAP && cap <= 2 * XV_STR_CAP); s->data = (char*)malloc(cap); __CPROVER_assume(s->data != 0); s->size = 0; }
static inline void xv_str_push_back(xv_str* s, char c) { __CPROVER_assert(s->size + 1 < XV_STR_CAP, "string model: capacity bound not exceeded"); s->data[s->size] = c; s->size = s->size + 1; }

#define XV_VEC_AT(v,i) ((v)->data[i])
/* std::array::at: out_of_range for i >= N (element 0 stands in for the reference that is never used after the throw) */
#define XV_ARR_AT(arr, n, i) ((i) >= (n) ? (xv_exc = XV_EXC_out_of_range, &(arr)[0]) : &(arr)[i])
#define XV_ARR_FILL(xp, xval) __CPROVER_array_set((xp)->a, (xval))   /* std::array::fill: every element set */

/* unsigned multiplication as an uninterpreted function (units lowered with uf_mul): sound for proving that two
   computations agree (they then agree for every interpretation of *, in particular for machine multiplication) */
unsigned int __CPROVER_uninterpreted_umul32(unsigned int, unsigned int);
unsigned long __CPROVER_uninterpreted_umul64(unsigned long, unsigned long);
#define XV_UMUL32(a, b) __CPROVER_uninterpreted_umul32((a), (b))
#define XV_UMUL64(a, b) __CPROVER_uninterpreted_umul64((a), (b))
unsigned long __CPROVER_uninterpreted_udiv64(unsigned long, unsigned long);
unsigned long __CPROVER_uninterpreted_umod64(unsigned long, unsigned long);
unsigned int __CPROVER_uninterpreted_udiv32(unsigned int, unsigned int);
unsigned int __CPROVER_uninterpreted_umod32(unsigned int, unsigned int);
#define XV_UDIV64(a, b) __CPROVER_uninterpreted_udiv64((a), (b))
#define XV_UMOD64(a, b) __CPROVER_uninterpreted_umod64((a), (b))
#define XV_UDIV32(a, b) __CPROVER_uninterpreted_udiv32((a), (b))
#define XV_UMOD32(a, b) __CPROVER_uninterpreted_umod32((a), (b))

/* signed * / % as uninterpreted functions (units lowered with uf_mul='all'); division keeps its trap obligation */
int __CPROVER_uninterpreted_smul32(int, int);
int __CPROVER_uninterpreted_sdiv32(int, int);
int __CPROVER_uninterpreted_smod32(int, int);
#define XV_SMUL32(a, b) __CPROVER_uninterpreted_smul32((a), (b))
#define XV_SDIV32_SPEC(a, b) __CPROVER_uninterpreted_sdiv32((a), (b))
#define XV_SMOD32_SPEC(a, b) __CPROVER_uninterpreted_smod32((a), (b))
static inline int xv_sdiv32(int a, int b) { __CPROVER_assert(b != 0, "division by zero (integer /)"); return __CPROVER_uninterpreted_sdiv32(a, b); }
static inline int xv_smod32(int a, int b) { __CPROVER_assert(b != 0, "division by zero (integer %)"); return __CPROVER_uninterpreted_smod32(a, b); }
#define XV_SDIV32(a, b) xv_sdiv32((a), (b))
#define XV_SMOD32(a, b) xv_smod32((a), (b))
static xv_empty xv_empty_value;
unsigned long __CPROVER_uninterpreted_stdhash(unsigned long);
#define XV_STDHASH(x) __CPROVER_uninterpreted_stdhash(x)   /* std::hash<integer>: some function of the value */
#define XV_SWAP(T, a, b) do { T xv_tmp = *(a); *(a) = *(b); *(b) = xv_tmp; } while (0)
#include "xv_vec.h"
#include "xv_chr.h"

static inline void xv_abort(void) { __CPROVER_assume(0); }
#endif
